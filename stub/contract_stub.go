//go:build verif

// Pure-Go stand-in for the LuaJIT VM entry points of package contract.
//
// TRUSTED BASE of the verification harness (see /verif/DESIGN.md section 1.3). The real
// files that implement these symbols are cgo (vm.go, vm_callback.go, ...) and cannot be
// built in this sandbox (the LuaJIT submodule is empty). contract.go itself — Execute,
// checkExecution, checkRedeploy, fee and balance logic — is the REAL file (only its unused
// `import "C"` line is dropped by the overlay builder).
//
// The stub "VM" interprets a tiny JSON program so that DEPLOY / CALL / FEEDELEGATION
// transactions take the real code paths of chain.executeTx:
//
//	deploy payload : any bytes; stored as the contract code, creator recorded
//	call payload   : {"ops":[["set","k","v"],["del","k"],["event","name"],["burn","200000"],["fail","msg"],["sysfail"]]}
//
// "fail" returns a runtime (vm) error after the preceding ops have touched the contract
// state (so the caller's rollback is exercised); "sysfail" returns a system error.
// Fee: 1000 gas units per op times the gas price from fork version 2 on (0 before), capped
// by the gas limit handed to NewVmContext ("not enough gas" runtime error beyond it).
package contract

import (
	"context"
	"encoding/json"
	"errors"
	"math/big"
	"os"
	"strconv"

	"github.com/aergoio/aergo-lib/log"
	"github.com/aergoio/aergo/v2/state"
	"github.com/aergoio/aergo/v2/state/statedb"
	"github.com/aergoio/aergo/v2/types"
	"github.com/aergoio/aergo/v2/types/dbkey"
)

var ctrLgr = log.NewLogger("contract")

type ChainAccessor interface {
	GetBlockByNo(blockNo types.BlockNo) (*types.Block, error)
	GetBestBlock() (*types.Block, error)
}

type vmContext struct {
	traceFile *os.File
	bs        *state.BlockState
	sender    *state.AccountState
	receiver  *state.AccountState
	bi        *types.BlockHeaderInfo
	gasLimit  uint64
	gasPrice  *big.Int
	query     bool
}

func MaxCallDepth(version int32) int32 {
	if version >= 3 {
		return 64
	}
	return 5
}

func InitContext(numCtx int, logInternalOps bool)                  {}
func StartLStateFactory(numLStates, numClosers, numCloseLimit int) {}
func LoadDatabase(dataDir string) error                            { return nil }
func CloseDatabase()                                               {}
func SaveRecoveryPoint(bs *state.BlockState) error                 { return nil }

func NewVmContext(execCtx context.Context, blockState *state.BlockState, cdb ChainAccessor, sender, receiver *state.AccountState, contractState *statedb.ContractState, senderID, txHash []byte, bi *types.BlockHeaderInfo, node string, confirmed, query bool, rp uint64, executionMode int, amount *big.Int, gasLimit uint64, feeDelegation, isMultiCall bool) *vmContext {
	c := &vmContext{bs: blockState, sender: sender, receiver: receiver, bi: bi, gasLimit: gasLimit, query: query}
	if blockState != nil && blockState.GasPrice != nil {
		c.gasPrice = new(big.Int).Set(blockState.GasPrice)
	} else {
		c.gasPrice = new(big.Int)
	}
	return c
}

type stubProgram struct {
	Ops [][]string `json:"ops"`
}

const stubGasPerOp = 1000

func (c *vmContext) feeFor(nops int) (*big.Int, bool) {
	return c.feeForGas(uint64(nops) * stubGasPerOp)
}

func (c *vmContext) feeForGas(gas uint64) (*big.Int, bool) {
	if c.bi == nil || c.bi.ForkVersion < 2 {
		return new(big.Int), true
	}
	ok := true
	if gas > c.gasLimit {
		gas = c.gasLimit
		ok = false
	}
	return new(big.Int).Mul(new(big.Int).SetUint64(gas), c.gasPrice), ok
}

func Call(contractState *statedb.ContractState, payload, contractAddress []byte, ctx *vmContext) (string, []*types.Event, string, *big.Int, error) {
	var prog stubProgram
	if len(payload) == 0 {
		// "default" function: accepts the transfer
		f, _ := ctx.feeFor(0)
		return "", nil, "", f, nil
	}
	if err := json.Unmarshal(payload, &prog); err != nil {
		f, _ := ctx.feeFor(1)
		return "", nil, "", f, errors.New("stub vm: not a program")
	}
	code, _ := contractState.GetCode()
	if len(code) == 0 {
		f, _ := ctx.feeFor(1)
		return "", nil, "", f, errors.New("stub vm: no code at recipient")
	}
	// every op costs stubGasPerOp; ["burn","N"] stands for expensive contract code and costs N more
	gas := uint64(len(prog.Ops)) * stubGasPerOp
	for _, op := range prog.Ops {
		if len(op) == 2 && op[0] == "burn" {
			if n, err := strconv.ParseUint(op[1], 10, 32); err == nil {
				gas += n
			}
		}
	}
	fee, enough := ctx.feeForGas(gas)
	if !enough {
		return "", nil, "", fee, errors.New("stub vm: not enough gas")
	}
	var events []*types.Event
	// like the real VM (executor.rollbackToSavepoint) a failing call undoes its own writes
	savepoint := contractState.Snapshot()
	fail := func(ev []*types.Event, f *big.Int, err error) (string, []*types.Event, string, *big.Int, error) {
		_ = contractState.Rollback(savepoint)
		return "", ev, "", f, err
	}
	for i, op := range prog.Ops {
		if len(op) == 0 {
			continue
		}
		switch op[0] {
		case "set":
			if len(op) < 3 {
				return fail(events, fee, errors.New("stub vm: bad set"))
			}
			if err := contractState.SetData([]byte(op[1]), []byte(op[2])); err != nil {
				return "", events, "", fee, newDbSystemError(err)
			}
		case "del":
			if len(op) < 2 {
				return fail(events, fee, errors.New("stub vm: bad del"))
			}
			if err := contractState.DeleteData([]byte(op[1])); err != nil {
				return "", events, "", fee, newDbSystemError(err)
			}
		case "event":
			name := "ev"
			if len(op) > 1 {
				name = op[1]
			}
			events = append(events, &types.Event{ContractAddress: contractAddress, EventIdx: int32(len(events)), EventName: name, JsonArgs: "[]"})
		case "fail":
			msg := "stub vm: fail"
			if len(op) > 1 {
				msg = op[1]
			}
			return fail(events, fee, errors.New(msg))
		case "burn":
			// accounted for above
		case "sysfail":
			return fail(events, fee, newVmSystemError(errors.New("stub vm: system failure")))
		default:
			return fail(events, fee, errors.New("stub vm: unknown op"))
		}
		_ = i
	}
	return "\"ok\"", events, "", fee, nil
}

func Create(contractState *statedb.ContractState, payload, contractAddress []byte, ctx *vmContext) (string, []*types.Event, string, *big.Int, error) {
	fee, _ := ctx.feeFor(1)
	if len(payload) == 0 {
		return "", nil, "", fee, errors.New("contract code is required")
	}
	if err := contractState.SetCode(nil, payload); err != nil {
		return "", nil, "", fee, err
	}
	if err := contractState.SetData(dbkey.CreatorMeta(), []byte(types.EncodeAddress(ctx.sender.ID()))); err != nil {
		return "", nil, "", fee, err
	}
	// stub contracts whose code ends in an odd digit allow fee delegation from the start
	if n := len(payload); n > 0 && payload[n-1] >= '0' && payload[n-1] <= '9' && (payload[n-1]-'0')%2 == 1 {
		if err := contractState.SetData([]byte("_fd"), []byte("1")); err != nil {
			return "", nil, "", fee, err
		}
	}
	return "", nil, "", fee, nil
}

func Query(contractAddress []byte, bs *state.BlockState, cdb ChainAccessor, contractState *statedb.ContractState, queryInfo []byte) (res []byte, err error) {
	return nil, errors.New("stub vm: query not supported")
}

// CheckFeeDelegation: the stub contract allows fee delegation iff its storage holds a
// non-empty value under the key "_fd".
func CheckFeeDelegation(contractAddress []byte, bs *state.BlockState, bi *types.BlockHeaderInfo, cdb ChainAccessor, contractState *statedb.ContractState, payload, txHash, sender, amount []byte) (err error) {
	v, err := contractState.GetData([]byte("_fd"))
	if err != nil {
		return err
	}
	if len(v) == 0 {
		return types.ErrNotAllowedFeeDelegation
	}
	return nil
}

func GetABI(contractState *statedb.ContractState, bs *state.BlockState) (*types.ABI, error) {
	return nil, errors.New("stub vm: no abi")
}
