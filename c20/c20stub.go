//go:build verif

package contract

import (
	"errors"
	"unsafe"

	"github.com/aergoio/aergo/v2/cmd/aergoluac/util"

	"github.com/aergoio/aergo/v2/state"
)

type sqlTx interface {
	commit() error
	rollback() error
	savepoint() error
	release() error
	rollbackToSavepoint() error
	subSavepoint(string) error
	subRelease(string) error
	rollbackToSubSavepoint(string) error
	close() error
	begin() error
}

var errNoSQL = errors.New("sql not available")

func beginTx(dbName string, rp uint64) (sqlTx, error)       { return nil, errNoSQL }
func beginReadOnly(dbName string, rp uint64) (sqlTx, error) { return nil, errNoSQL }
func LoadDatabase(dataDir string) error                     { return nil }
func CloseDatabase()                                        {}
func SaveRecoveryPoint(bs *state.BlockState) error          { return nil }

func luaGetDbHandle(service c_int) unsafe.Pointer { return nil }

func Compile(code string, parent *LState) (util.LuaCode, error) { return nil, errors.New("no compiler") }
