//go:build verif

package contract

// C20 — read-only contract execution cannot change state. The Lua VM cannot be built here, so
// programs cannot be run; what IS executed is the Go half of the mechanism: the exported host
// callbacks of vm_callback.go (transliterated at check time from the CURRENT working tree: cgo
// references replaced by pure-Go stand-ins), i.e. exactly the functions that carry the read-only
// guards. A generated sequence of host-callback invocations is applied to a real vmContext on a
// real BlockState twice: in a read-only context (client query, fee-delegation check, or inside
// 1..3 nested view wrappers entered through the real luaViewStart) and in a writable twin.
// Oracle: in the read-only context every mutating callback refuses (returns its error; the
// recovery-point call returns "no recovery point") and the observable state of the context —
// contract storage, every account in the call state, events, recovery points, update size —
// is identical before and after the sequence; the writable twin DOES change (else the case is
// trivial), so a removed or weakened guard is observable.

import (
	"context"
	"fmt"
	"math/big"
	"sort"
	"strings"
	"testing"
	"unsafe"

	"github.com/aergoio/aergo-lib/db"
	"github.com/aergoio/aergo/v2/state"
	"github.com/aergoio/aergo/v2/state/statedb"
	"github.com/aergoio/aergo/v2/types"
	"github.com/aergoio/aergo/v2/verifx/ev"
	"pgregory.net/rapid"
)

type c20Chain struct{ best *types.Block }

func (c c20Chain) GetBlockByNo(no types.BlockNo) (*types.Block, error) { return c.best, nil }
func (c c20Chain) GetBestBlock() (*types.Block, error)                  { return c.best, nil }

func c20Addr(i int) []byte {
	a := make([]byte, types.AddressLength)
	a[0] = 0x02
	copy(a[1:], []byte(fmt.Sprintf("c20-account-%02d-padding-padding!!", i)))
	return a
}

type c20Op struct {
	kind string
	key  string
	val  string
	to   int
	amt  string
}

func (o c20Op) String() string {
	switch o.kind {
	case "set":
		return fmt.Sprintf("set(%s=%s)", o.key, o.val)
	case "del":
		return fmt.Sprintf("del(%s)", o.key)
	case "send":
		return fmt.Sprintf("send(a%d,%s)", o.to, o.amt)
	case "event":
		return fmt.Sprintf("event(%s)", o.key)
	case "stake", "unstake":
		return fmt.Sprintf("%s(%s)", o.kind, o.amt)
	default:
		return o.kind
	}
}

// c20Env is one execution context on its own state.
type c20Env struct {
	ctx     *vmContext
	service c_int
	keys    []string
}

func c20NewEnv(t *rapid.T, mode string, forkVersion int32) *c20Env {
	store := db.NewDB(db.MemoryImpl, "")
	sdb := statedb.NewStateDB(store, nil, false)
	bs := state.NewBlockState(sdb)
	contractID := c20Addr(0)
	senderID := c20Addr(1)
	mk := func(id []byte, bal int64, code bool) *state.AccountState {
		as, err := state.GetAccountState(id, sdb)
		if err != nil {
			t.Fatalf("account: %v", err)
		}
		as.AddBalance(new(big.Int).Mul(big.NewInt(bal), types.NewAmount(1, types.Aergo)))
		if code {
			cs, err := statedb.OpenContractState(id, as.State(), sdb)
			if err != nil {
				t.Fatal(err)
			}
			cs.SetCode(nil, []byte("c20-code"))
			cs.SetData([]byte("k0"), []byte("initial"))
			statedb.StageContractState(cs, sdb)
		}
		if err := as.PutState(); err != nil {
			t.Fatal(err)
		}
		return as
	}
	mk(contractID, 100000, true)
	mk(senderID, 100000, false)
	mk(c20Addr(2), 5, false)
	if err := bs.Update(); err != nil {
		t.Fatal(err)
	}
	if err := bs.Commit(); err != nil {
		t.Fatal(err)
	}
	receiver, _ := state.GetAccountState(contractID, sdb)
	sender, _ := state.GetAccountState(senderID, sdb)
	ctrState, err := statedb.OpenContractState(contractID, receiver.State(), sdb)
	if err != nil {
		t.Fatal(err)
	}
	best := &types.Block{Header: &types.BlockHeader{BlockNo: 10, ChainID: types.MakeChainId(func() []byte { b, _ := types.NewChainID().Bytes(); return b }(), forkVersion)}}
	bi := types.NewBlockHeaderInfo(best)
	bi.ForkVersion = forkVersion
	InitContext(8, false)
	var ctx *vmContext
	switch mode {
	case "query":
		ctx, err = NewVmContextQuery(bs, c20Chain{best}, contractID, ctrState, 0)
		if err != nil {
			t.Fatal(err)
		}
		ctx.blockInfo.ForkVersion = forkVersion
		ctx.service = c_int(ChainService + 1)
	case "feedelegation-check":
		ctx = NewVmContext(context.Background(), bs, c20Chain{best}, sender, receiver, ctrState, senderID, []byte("txhash"), bi, "", true, true, 0, ChainService, new(big.Int), 1000000, true, false)
	default: // writable / view
		ctx = NewVmContext(context.Background(), bs, c20Chain{best}, sender, receiver, ctrState, senderID, []byte("txhash"), bi, "", true, false, 0, ChainService, new(big.Int), 1000000, false, false)
	}
	contexts[ctx.service] = ctx
	return &c20Env{ctx: ctx, service: ctx.service, keys: []string{"k0", "k1", "k2"}}
}

// observe renders everything a callback could have modified.
func (e *c20Env) observe() string {
	var sb strings.Builder
	var ids []string
	for id := range e.ctx.callState {
		ids = append(ids, string(id[:]))
	}
	sort.Strings(ids)
	for _, id := range ids {
		var aid types.AccountID
		copy(aid[:], id)
		cs := e.ctx.callState[aid]
		fmt.Fprintf(&sb, "acc %x bal=%s nonce=%d", id[:4], cs.accState.Balance(), cs.accState.Nonce())
		if cs.ctrState != nil {
			for _, k := range e.keys {
				v, _ := cs.ctrState.GetData([]byte(k))
				fmt.Fprintf(&sb, " %s=%q", k, v)
			}
		}
		sb.WriteString("; ")
	}
	fmt.Fprintf(&sb, "events=%d/%d rp=%v upd=%d", len(e.ctx.events), e.ctx.eventCount, e.ctx.lastRecoveryPoint != nil, e.ctx.dbUpdateTotalSize)
	return sb.String()
}

// apply runs one host callback; returns whether it reported refusal.
func (e *c20Env) apply(o c20Op) (refused bool, msg string) {
	var L *LState
	str := func(p *c_char) string {
		if p == nil {
			return ""
		}
		return c_GoString(p)
	}
	switch o.kind {
	case "set":
		k := []byte(o.key)
		r := luaSetDB(L, e.service, unsafe.Pointer(&k[0]), c_int(len(k)), c_CString(o.val))
		return r != nil, str(r)
	case "del":
		k := []byte(o.key)
		r := luaDelDB(L, e.service, unsafe.Pointer(&k[0]), c_int(len(k)))
		return r != nil, str(r)
	case "send":
		r := luaSendAmount(L, e.service, c_CString(types.EncodeAddress(c20Addr(o.to))), c_CString(o.amt))
		return r != nil, str(r)
	case "event":
		r := luaEvent(L, e.service, c_CString(o.key), c_CString("[]"))
		return r != nil, str(r)
	case "recovery":
		seq, r := luaSetRecoveryPoint(L, e.service)
		return r != nil || seq == 0, str(r)
	case "stake":
		r := luaGovernance(L, e.service, 'S', c_CString(o.amt))
		return r != nil, str(r)
	case "unstake":
		r := luaGovernance(L, e.service, 'U', c_CString(o.amt))
		return r != nil, str(r)
	case "vote":
		r := luaGovernance(L, e.service, 'V', c_CString(`[]`))
		return r != nil, str(r)
	case "deploy":
		_, r := luaDeployContract(L, e.service, c_CString("no-such-contract"), c_CString("[]"), c_CString("1"))
		return r != nil, str(r)
	}
	return true, "unknown op"
}

func TestC20ReadOnlyGuards(t *testing.T) {
	rec := ev.New("C20", "readonly-guards")
	defer rec.Flush()
	rapid.Check(t, func(t *rapid.T) {
		forkVersion := int32(rapid.IntRange(0, 5).Draw(t, "forkVersion"))
		mode := rapid.SampledFrom([]string{"query", "feedelegation-check", "view", "view", "view"}).Draw(t, "mode")
		depth, exits := 0, 0
		if mode == "view" {
			depth = rapid.IntRange(1, 3).Draw(t, "viewDepth")
			exits = rapid.IntRange(0, depth-1).Draw(t, "viewExits") // some inner views already returned; at least one is still open
		}
		n := rapid.IntRange(1, 8).Draw(t, "nops")
		var ops []c20Op
		for i := 0; i < n; i++ {
			o := c20Op{kind: rapid.SampledFrom([]string{"set", "set", "del", "send", "send", "event", "recovery", "stake", "unstake", "vote", "deploy"}).Draw(t, "op")}
			switch o.kind {
			case "set":
				o.key, o.val = rapid.SampledFrom([]string{"k0", "k1", "k2"}).Draw(t, "key"), rapid.SampledFrom([]string{"x", "y", ""}).Draw(t, "val")
			case "del":
				o.key = rapid.SampledFrom([]string{"k0", "k1", "k2"}).Draw(t, "key")
			case "send":
				o.to, o.amt = rapid.IntRange(1, 3).Draw(t, "to"), rapid.SampledFrom([]string{"1", "1 aergo", "10000 gaer", "5"}).Draw(t, "amt")
			case "event":
				o.key = rapid.SampledFrom([]string{"e1", "e2"}).Draw(t, "ev")
			case "stake", "unstake":
				o.amt = rapid.SampledFrom([]string{"10000 aergo", "1 aergo"}).Draw(t, "gamt")
			}
			ops = append(ops, o)
		}
		var descs []string
		for _, o := range ops {
			descs = append(descs, o.String())
		}
		where := fmt.Sprintf("mode=%s view depth=%d exits=%d fork version=%d ops=[%s]", mode, depth, exits, forkVersion, strings.Join(descs, ", "))
		// ---- read-only context
		ro := c20NewEnv(t, mode, forkVersion)
		for i := 0; i < depth; i++ {
			luaViewStart(ro.service)
		}
		for i := 0; i < exits; i++ {
			luaViewEnd(ro.service)
		}
		if mode == "view" && luaCheckView(ro.service) != c_int(depth-exits) {
			t.Fatalf("view nesting depth is %d after %d entries and %d exits\n%s", luaCheckView(ro.service), depth, exits, where)
		}
		before := ro.observe()
		for i, o := range ops {
			var refused bool
			var msg string
			func() {
				defer func() {
					if p := recover(); p != nil {
						t.Fatalf("host callback %s panicked in a read-only context: %v\n%s", o, p, where)
					}
				}()
				refused, msg = ro.apply(o)
			}()
			if !refused {
				t.Fatalf("operation %d (%s) was NOT refused in a read-only context (%s)\n%s", i, o, msg, where)
			}
			if now := ro.observe(); now != before {
				t.Fatalf("operation %d (%s) changed state in a read-only context although it reported %q\nbefore: %s\nafter:  %s\n%s", i, o, msg, before, now, where)
			}
		}
		// the state root is unchanged as well
		root0 := ro.ctx.bs.GetRoot()
		if err := ro.ctx.bs.Update(); err != nil {
			t.Fatal(err)
		}
		if string(ro.ctx.bs.GetRoot()) != string(root0) {
			t.Fatalf("the state root changed after a read-only execution\n%s", where)
		}
		// ---- writable twin: the same sequence must be able to change state
		rw := c20NewEnv(t, "writable", forkVersion)
		b0 := rw.observe()
		kinds := map[string]bool{}
		for _, o := range ops {
			prev := rw.observe()
			func() {
				defer func() { recover() }() // deep paths need the VM: not our subject in the writable twin
				rw.apply(o)
			}()
			if rw.observe() != prev {
				kinds[o.kind] = true
			}
		}
		changed := rw.observe() != b0
		var kl []string
		for k := range kinds {
			kl = append(kl, "writable-changes:"+k)
		}
		sort.Strings(kl)
		kl = append(kl, "mode:"+mode)
		rec.Case(strings.Join(kl, ","), where, changed && len(kinds) >= 2, func() interface{} { return where })
		contexts[ro.service] = nil
	})
}
