//go:build verif

package contract

import (
	"unsafe"
)

// pure-Go stand-ins for the cgo symbols used by the transliterated host-callback sources.
type c_int = int32
type c_char = byte
type c_double = float64
type c_size_t = uint64
type c_ulonglong = uint64
type c_lua_Integer = int64
type c_struct_lua_State struct{ gas uint64 }

const c_ERR_BF_TIMEOUT = "contract timeout during vm execution"

func c_CString(s string) *c_char {
	b := make([]byte, len(s)+1)
	copy(b, s)
	return &b[0]
}
func c_GoString(p *c_char) string {
	if p == nil {
		return ""
	}
	n := 0
	for *(*byte)(unsafe.Add(unsafe.Pointer(p), n)) != 0 {
		n++
	}
	return string(unsafe.Slice(p, n))
}
func c_GoBytes(p unsafe.Pointer, n c_int) []byte {
	if p == nil || n == 0 {
		return nil
	}
	return append([]byte(nil), unsafe.Slice((*byte)(p), int(n))...)
}
func c_CBytes(b []byte) unsafe.Pointer {
	c := append([]byte(nil), b...)
	c = append(c, 0)
	return unsafe.Pointer(&c[0])
}
func c_free(unsafe.Pointer) {}

func c_initViewFunction()                                  {}
func c_init_bignum()                                       {}
func c_luaL_hardforkversion(*LState) c_int                 { return 0 }
func c_luaL_hassyserror(*LState) c_int                     { return 0 }
func c_luaL_hasuncatchablerror(*LState) c_int              { return 0 }
func c_luaL_set_hardforkversion(*LState, c_int)            {}
func c_luaL_set_service(*LState, c_int)                    {}
func c_luaL_setsyserror(*LState)                           {}
func c_luaL_setuncatchablerror(*LState)                    {}
func c_lua_close(*LState)                                  {}
func c_lua_createtable(*LState, c_int, c_int)              {}
func c_lua_gasget(*LState) c_ulonglong                     { return 0 }
func c_lua_gasset(*LState, c_ulonglong)                    {}
func c_lua_gettop(*LState) c_int                           { return 0 }
func c_lua_pushboolean(*LState, c_int)                     {}
func c_lua_pushinteger(*LState, c_lua_Integer)             {}
func c_lua_pushlstring(*LState, *c_char, c_size_t)         {}
func c_lua_pushnil(*LState)                                {}
func c_lua_pushnumber(*LState, c_double)                   {}
func c_lua_pushstring(*LState, *c_char)                    {}
func c_lua_rawset(*LState, c_int)                          {}
func c_lua_rawseti(*LState, c_int, c_int)                  {}
func c_lua_set_bignum(*LState, *c_char) *c_char            { return nil }
func c_lua_settop(*LState, c_int)                          {}
func c_vm_autoload(*LState, *c_char) c_int                 { return 0 }
func c_vm_closestates(**LState, c_int)                     {}
func c_vm_copy_result(*LState, *LState, c_int) *c_char     { return nil }
func c_vm_copy_service(*LState, *LState) c_int             { return 0 }
func c_vm_get_abi_function(*LState, *c_char)               {}
func c_vm_get_json_ret(*LState, c_int, *c_int) *c_char     { return nil }
func c_vm_instcount(*LState) c_int                         { return 0 }
func c_vm_is_hardfork(*LState, c_int) bool                 { return false }
func c_vm_loadbuff(*LState, *c_char, c_size_t, *c_char, c_int) *c_char { return c_CString("no vm") }
func c_vm_loadcall(*LState) *c_char                        { return c_CString("no vm") }
func c_vm_newstate(c_int) *LState                          { return nil }
func c_vm_pcall(*LState, c_int, *c_int) *c_char            { return c_CString("no vm") }
func c_vm_remove_constructor(*LState)                      {}
func c_vm_set_count_hook(*LState, c_int)                   {}
func c_vm_set_timeout_count_hook(*LState, c_int)           {}
func c_vm_set_timeout_hook(*LState)                        {}
func c_vm_setinstcount(*LState, c_int)                     {}
