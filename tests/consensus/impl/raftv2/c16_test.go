//go:build verif

package raftv2

// C16 — raft log storage and membership.
//
// Part A (TestC16Wal): a rapid state machine on the real write-ahead log API (WalDB over the
// chain DB of a real node): append batches that overlap the existing suffix (shorter, equal,
// longer), mixed block / empty / conf-change entries carrying real produced blocks, hard state,
// snapshot and identity writes, ResetWAL / ClearWAL, and a RESTART (close the node, reopen the
// same memorydb directory) after drawn steps. Oracle: a reference log (index -> entry) with
// last index, hard state, snapshot and identity, compared after every step.
//
// Part B (TestC16Membership): generated cluster compositions (<= 5 members, deliberate
// collisions of name / id / address / peer id), removed-member sets and health vectors
// (fabricated raft progress behind a fake raft node); every add / remove request is decided by
// the real validateChangeMembership + isEnableChangeMembership and compared with the rule table
// of the property.

import (
	"bytes"
	"encoding/json"
	"fmt"
	"sort"
	"strings"
	"testing"

	"github.com/aergoio/aergo/v2/consensus"
	"github.com/aergoio/aergo/v2/types"
	"github.com/aergoio/aergo/v2/verifx/ev"
	"github.com/aergoio/aergo/v2/verifx/vnode"
	raftlib "github.com/aergoio/etcd/raft"
	"github.com/aergoio/etcd/raft/raftpb"
	"pgregory.net/rapid"
)

type mEntry struct {
	term  uint64
	typ   string // block | empty | conf
	block *types.Block
	data  []byte // entry data as handed to SaveEntry
}

type walModel struct {
	log      map[uint64]*mEntry
	last     uint64
	hs       *raftpb.HardState
	snap     *raftpb.Snapshot
	identity *consensus.RaftIdentity
	gone     map[string]bool // hashes of block entries that were truncated / cleared
}

func TestC16Wal(t *testing.T) {
	rec := ev.New("C16", "wal")
	defer rec.Flush()
	rapid.Check(t, func(t *rapid.T) {
		opts := vnode.WorldOpts{Consensus: "raft", Public: false, NUsers: 2, NBPs: 1, Magic: "verif.c16"}
		spec := vnode.NewSpec(opts)
		N, err := vnode.Open(spec, "")
		if err != nil {
			t.Fatal(err)
		}
		dir := N.Dir
		defer func() { N.Remove() }()
		N.SwitchTo()
		// a pool of real blocks (produced, never connected): entries carry them
		var blocks []*types.Block
		prev := N.Best()
		for i := 0; i < 6; i++ {
			s := &vnode.TxSpec{Kind: "transfer", From: 0, Nonce: uint64(i + 1), Type: types.TxType_TRANSFER, Recipient: vnode.KeyN(1).Addr, Amount: vnode.Aergo}
			p, err := N.ProduceCommitted(prev, prev.GetHeader().GetTimestamp()+1e9, []*types.Tx{s.Build(N.ChainIDHashFor(prev))}, nil)
			if err != nil {
				t.Fatal(err)
			}
			blocks = append(blocks, p.Block)
			prev = p.Block
		}
		m := &walModel{log: map[uint64]*mEntry{}, gone: map[string]bool{}}
		var hist []string
		term := uint64(1)
		truncs, restarts, overwriteKinds := 0, 0, map[string]bool{}
		nextBlock := 0
		wal := func() *WalDB { return NewWalDB(N.CS.WalDB()) }

		check := func(where string) {
			w := wal()
			fail := func(f string, a ...interface{}) {
				t.Fatalf("%s: %s\nhistory: %s", where, fmt.Sprintf(f, a...), strings.Join(hist, " | "))
			}
			last, err := w.GetRaftEntryLastIdx()
			if err != nil || last != m.last {
				fail("last index is %d (err %v), expected %d", last, err, m.last)
			}
			for i := uint64(1); i <= m.last+3; i++ {
				e, err := w.GetRaftEntry(i)
				want := m.log[i]
				if want == nil {
					if err == nil {
						fail("index %d holds an entry (term %d) although it was never written / was removed", i, e.Term)
					}
					continue
				}
				if err != nil {
					fail("entry %d cannot be read: %v", i, err)
				}
				if e.Index != i || e.Term != want.term {
					fail("entry %d reads back as index %d term %d, expected term %d", i, e.Index, e.Term, want.term)
				}
				switch want.typ {
				case "block":
					if e.Type != consensus.EntryBlock || !bytes.Equal(e.Data, want.block.BlockHash()) {
						fail("entry %d should carry block %x", i, want.block.BlockHash()[:6])
					}
					be, err := w.GetRaftEntryOfBlock(want.block.BlockHash())
					if err != nil || be.Index != i {
						fail("entry of block %x (index %d) is not found by block hash: %v", want.block.BlockHash()[:6], i, err)
					}
				case "empty":
					if e.Type != consensus.EntryEmpty {
						fail("entry %d should be an empty entry", i)
					}
				case "conf":
					if e.Type != consensus.EntryConfChange || !bytes.Equal(e.Data, want.data) {
						fail("entry %d should be the conf change written", i)
					}
				}
			}
			// an entry removed by a conflicting overwrite / clear / reset is absent under every name: a lookup by the
			// hash of the block it carried must not hand out whatever entry sits at its old index now
			for h := range m.gone {
				live := false
				for _, e := range m.log {
					if e != nil && e.typ == "block" && string(e.block.BlockHash()) == h {
						live = true
					}
				}
				if live {
					continue
				}
				if be, err := w.GetRaftEntryOfBlock([]byte(h)); err == nil && be != nil && (be.Type != consensus.EntryBlock || !bytes.Equal(be.Data, []byte(h))) {
					fail("the entry that carried block %x was removed; a lookup by that block's hash returns entry %d (type %v) carrying %x", []byte(h)[:6], be.Index, be.Type, be.Data[:min(6, len(be.Data))])
				}
			}
			hs, err := w.GetHardState()
			if m.hs == nil {
				if err == nil {
					fail("a hard state %v is stored although none was written", hs)
				}
			} else if err != nil || hs.Term != m.hs.Term || hs.Vote != m.hs.Vote || hs.Commit != m.hs.Commit {
				fail("hard state reads back as %v (err %v), expected %v", hs, err, m.hs)
			}
			sn, err := w.GetSnapshot()
			if m.snap == nil {
				if sn != nil {
					fail("a snapshot is stored although none was written")
				}
			} else if err != nil || sn == nil || sn.Metadata.Index != m.snap.Metadata.Index || sn.Metadata.Term != m.snap.Metadata.Term || !bytes.Equal(sn.Data, m.snap.Data) {
				fail("snapshot reads back differently (err %v)", err)
			}
			id, err := w.GetIdentity()
			if m.identity == nil {
				if id != nil {
					fail("an identity is stored although none was written")
				}
			} else if err != nil || id == nil || *id != *m.identity {
				fail("identity reads back as %v (err %v), expected %v", id, err, m.identity)
			}
			// what a restarted node hands to the consensus library
			if m.hs != nil {
				snapIdx := uint64(0)
				if m.snap != nil {
					snapIdx = m.snap.Metadata.Index
				}
				complete := true
				for i := snapIdx + 1; i <= m.last; i++ {
					if m.log[i] == nil || (m.snap != nil && m.log[i].term < m.snap.Metadata.Term) {
						complete = false
					}
				}
				rid, rhs, ents, err := w.ReadAll(m.snap)
				if complete {
					if err != nil {
						fail("ReadAll failed: %v", err)
					}
					if (rid == nil) != (m.identity == nil) || rhs.Commit != m.hs.Commit {
						fail("ReadAll returned identity %v / hard state %v", rid, rhs)
					}
					if uint64(len(ents)) != m.last-minU(m.last, snapIdx) {
						fail("ReadAll returned %d entries, expected %d (snapshot index %d, last %d)", len(ents), m.last-minU(m.last, snapIdx), snapIdx, m.last)
					}
					for k, e := range ents {
						i := snapIdx + 1 + uint64(k)
						want := m.log[i]
						if e.Index != i || e.Term != want.term {
							fail("ReadAll entry #%d is index %d term %d, expected index %d term %d", k, e.Index, e.Term, i, want.term)
						}
						switch want.typ {
						case "block":
							if e.Type != raftpb.EntryNormal || !bytes.Equal(e.Data, want.data) {
								fail("ReadAll entry %d does not re-materialise the block that was written", i)
							}
						case "empty":
							if e.Type != raftpb.EntryNormal || len(e.Data) != 0 {
								fail("ReadAll entry %d should be an empty normal entry", i)
							}
						case "conf":
							if e.Type != raftpb.EntryConfChange || !bytes.Equal(e.Data, want.data) {
								fail("ReadAll entry %d should be the conf change written", i)
							}
						}
					}
				}
			}
		}

		steps := rapid.IntRange(3, 16).Draw(t, "steps")
		for s := 0; s < steps; s++ {
			w := wal()
			action := rapid.SampledFrom([]string{"append", "append", "append", "append", "hardstate", "snapshot", "identity", "reset", "clear", "restart", "restart"}).Draw(t, "action")
			switch action {
			case "append":
				lo := uint64(1)
				if m.snap != nil && m.snap.Metadata.Index+1 > lo && m.snap.Metadata.Index < m.last {
					lo = m.snap.Metadata.Index + 1
				}
				if lo > m.last+1 {
					lo = m.last + 1
				}
				first := uint64(rapid.IntRange(int(lo), int(m.last+1)).Draw(t, "first"))
				n := rapid.IntRange(1, 4).Draw(t, "n")
				if first <= m.last {
					term++
					truncs++
					switch {
					case first+uint64(n)-1 < m.last:
						overwriteKinds["shorter"] = true
					case first+uint64(n)-1 == m.last:
						overwriteKinds["equal"] = true
					default:
						overwriteKinds["longer"] = true
					}
				}
				var ents []raftpb.Entry
				var mes []*mEntry
				for k := 0; k < n; k++ {
					idx := first + uint64(k)
					switch rapid.SampledFrom([]string{"block", "block", "empty", "conf"}).Draw(t, "etype") {
					case "block":
						// every block entry carries its own block (a block is proposed once)
						nextBlock++
						base := blocks[nextBlock%len(blocks)]
						pb, err := N.ProduceCommitted(base, base.GetHeader().GetTimestamp()+int64(nextBlock+2)*1e9, nil, nil)
						if err != nil {
							t.Fatal(err)
						}
						b := pb.Block
						data, _ := marshalEntryData(b)
						ents = append(ents, raftpb.Entry{Type: raftpb.EntryNormal, Term: term, Index: idx, Data: data})
						mes = append(mes, &mEntry{term: term, typ: "block", block: b, data: data})
					case "empty":
						ents = append(ents, raftpb.Entry{Type: raftpb.EntryNormal, Term: term, Index: idx})
						mes = append(mes, &mEntry{term: term, typ: "empty"})
					default:
						mem := consensus.Member{MemberAttr: types.MemberAttr{ID: uint64(100 + idx), Name: fmt.Sprintf("m%d", idx), Address: "/ip4/127.0.0.1/tcp/7846", PeerID: []byte(vnode.BPN(0).ID)}}
						ctx, _ := json.Marshal(&mem)
						cc := raftpb.ConfChange{ID: uint64(1000*s + k + 1), Type: raftpb.ConfChangeAddNode, NodeID: mem.ID, Context: ctx}
						data, _ := cc.Marshal()
						ents = append(ents, raftpb.Entry{Type: raftpb.EntryConfChange, Term: term, Index: idx, Data: data})
						mes = append(mes, &mEntry{term: term, typ: "conf", data: data})
					}
				}
				var hs raftpb.HardState
				if rapid.Bool().Draw(t, "withHardState") {
					hs = raftpb.HardState{Term: term, Vote: 7, Commit: first + uint64(n) - 1}
				}
				if err := w.SaveEntry(hs, ents); err != nil {
					t.Fatalf("SaveEntry: %v", err)
				}
				for i := first; i <= m.last; i++ {
					if e := m.log[i]; e != nil && e.typ == "block" {
						m.gone[string(e.block.BlockHash())] = true
					}
					delete(m.log, i)
				}
				for k, e := range mes {
					m.log[first+uint64(k)] = e
				}
				m.last = first + uint64(n) - 1
				if !raftlib.IsEmptyHardState(hs) {
					m.hs = &hs
				}
				hist = append(hist, fmt.Sprintf("append[%d..%d]t%d", first, m.last, term))
			case "hardstate":
				hs := raftpb.HardState{Term: term, Vote: uint64(rapid.IntRange(0, 3).Draw(t, "vote")), Commit: uint64(rapid.IntRange(0, int(m.last)).Draw(t, "commit"))}
				if raftlib.IsEmptyHardState(hs) {
					continue
				}
				// the raft loop persists a hard state either on its own or through SaveEntry with an empty entry batch
				// (a Ready that only carries a vote / term / commit change)
				if rapid.Bool().Draw(t, "viaSaveEntry") {
					if err := w.SaveEntry(hs, nil); err != nil {
						t.Fatalf("SaveEntry(hard state only): %v", err)
					}
					hist = append(hist, fmt.Sprintf("save-hardstate-only(c%d)", hs.Commit))
				} else {
					if err := w.WriteHardState(&hs); err != nil {
						t.Fatal(err)
					}
					hist = append(hist, fmt.Sprintf("hardstate(c%d)", hs.Commit))
				}
				m.hs = &hs
			case "snapshot":
				if m.last == 0 {
					continue
				}
				idx := uint64(rapid.IntRange(1, int(m.last)).Draw(t, "snapIdx"))
				e := m.log[idx]
				if e == nil {
					continue
				}
				sd := consensus.NewSnapshotData(nil, nil, blocks[0])
				data, _ := sd.Encode()
				sn := &raftpb.Snapshot{Metadata: raftpb.SnapshotMetadata{Index: idx, Term: e.term}, Data: data}
				if err := w.WriteSnapshot(sn); err != nil {
					t.Fatal(err)
				}
				m.snap = sn
				hist = append(hist, fmt.Sprintf("snapshot(%d)", idx))
			case "identity":
				id := &consensus.RaftIdentity{ClusterID: uint64(rapid.IntRange(1, 9).Draw(t, "cid")), ID: uint64(rapid.IntRange(1, 9).Draw(t, "nid")), Name: "node", PeerID: "peer"}
				if err := w.WriteIdentity(id); err != nil {
					t.Fatal(err)
				}
				m.identity = id
				hist = append(hist, "identity")
			case "reset":
				hsi := &types.HardStateInfo{Term: term, Commit: uint64(rapid.IntRange(0, 5).Draw(t, "resetCommit"))}
				if err := w.ResetWAL(hsi); err != nil {
					t.Fatal(err)
				}
				for _, e := range m.log {
					if e.typ == "block" {
						m.gone[string(e.block.BlockHash())] = true
					}
				}
				m.log = map[uint64]*mEntry{}
				m.last = hsi.Commit
				m.hs = &raftpb.HardState{Term: hsi.Term, Commit: hsi.Commit}
				m.identity = nil
				sn, _ := w.GetSnapshot()
				m.snap = sn // ResetWAL writes a snapshot of the best block at (commit, term)
				if sn == nil || sn.Metadata.Index != hsi.Commit || sn.Metadata.Term != hsi.Term {
					t.Fatalf("ResetWAL did not leave a snapshot at index %d term %d", hsi.Commit, hsi.Term)
				}
				hist = append(hist, fmt.Sprintf("reset(c%d)", hsi.Commit))
			case "clear":
				w.ClearWAL()
				for _, e := range m.log {
					if e.typ == "block" {
						m.gone[string(e.block.BlockHash())] = true
					}
				}
				m.log, m.last, m.hs, m.snap, m.identity = map[uint64]*mEntry{}, 0, nil, nil, nil
				hist = append(hist, "clear")
			case "restart":
				N.Close()
				N, err = vnode.Open(spec, dir)
				if err != nil {
					t.Fatalf("reopen: %v", err)
				}
				restarts++
				hist = append(hist, "restart")
			}
			if len(hist) > 0 {
				check(fmt.Sprintf("after step %d (%s)", s, hist[len(hist)-1]))
			}
		}
		var cl []string
		for k := range overwriteKinds {
			cl = append(cl, "overwrite-"+k)
		}
		sort.Strings(cl)
		if restarts > 0 {
			cl = append(cl, "restart")
		}
		rec.Case(strings.Join(cl, ","), strings.Join(hist, "|"), truncs > 0 && restarts > 0, func() interface{} { return hist })
	})
}

func minU(a, b uint64) uint64 {
	if a < b {
		return a
	}
	return b
}

// ---- Part B: membership ---------------------------------------------------------------------

type fakeRaftNode struct {
	raftlib.Node
	st raftlib.Status
}

func (f *fakeRaftNode) Status() raftlib.Status { return f.st }

func TestC16Membership(t *testing.T) {
	rec := ev.New("C16", "membership")
	defer rec.Flush()
	rapid.Check(t, func(t *rapid.T) {
		n := rapid.IntRange(1, 5).Draw(t, "n")
		mk := func(i int) *consensus.Member {
			return &consensus.Member{MemberAttr: types.MemberAttr{ID: uint64(10 + i), Name: fmt.Sprintf("node%d", i), Address: fmt.Sprintf("/ip4/10.0.0.%d/tcp/7846", i+1), PeerID: []byte(vnode.BPN(i).ID)}}
		}
		cl := &Cluster{members: newMembers("members"), appliedMembers: newMembers("applied"), removedMembers: newMembers("removed")}
		var applied []*consensus.Member
		for i := 0; i < n; i++ {
			m := mk(i)
			cl.members.add(m)
			cl.appliedMembers.add(m)
			applied = append(applied, m)
		}
		cl.Size = uint32(n)
		nrem := rapid.IntRange(0, 2).Draw(t, "nremoved")
		var removed []*consensus.Member
		for i := 0; i < nrem; i++ {
			m := mk(20 + i)
			cl.removedMembers.add(m)
			removed = append(removed, m)
		}
		// health vector: node 0 is this node and the leader
		lastIdx := uint64(1000)
		st := raftlib.Status{Progress: map[uint64]raftlib.Progress{}}
		st.ID = applied[0].ID
		healthy := map[uint64]bool{}
		var hv []string
		for i, m := range applied {
			h := "healthy"
			if i > 0 {
				h = rapid.SampledFrom([]string{"healthy", "healthy", "healthy", "slow", "probe", "snapshot", "gap-at-limit"}).Draw(t, "health")
			}
			p := raftlib.Progress{Match: lastIdx, State: raftlib.ProgressStateReplicate}
			switch h {
			case "slow":
				p.Match = lastIdx - MaxSlowNodeGap - 1
			case "gap-at-limit":
				p.Match = lastIdx - MaxSlowNodeGap // exactly at the limit: still healthy
			case "probe":
				p.State = raftlib.ProgressStateProbe
			case "snapshot":
				p.State = raftlib.ProgressStateSnapshot
			}
			// Next: one past Match when idle; in the replicate state the leader may have sent (not yet acknowledged)
			// everything up to its last entry
			p.Next = p.Match + 1
			if p.State == raftlib.ProgressStateReplicate && rapid.Bool().Draw(t, "inflight") {
				p.Next = lastIdx + 1
			}
			healthy[m.ID] = h == "healthy" || h == "gap-at-limit"
			st.Progress[m.ID] = p
			hv = append(hv, h)
		}
		storage := raftlib.NewMemoryStorage()
		ents := make([]raftpb.Entry, 0, lastIdx)
		for i := uint64(1); i <= lastIdx; i++ {
			ents = append(ents, raftpb.Entry{Index: i, Term: 1})
		}
		storage.Append(ents)
		rs := &raftServer{node: &fakeRaftNode{st: st}, raftStorage: storage, cluster: cl}
		rs.leaderStatus.IsLeader = true
		rs.leaderStatus.Leader = applied[0].ID
		cl.rs = rs
		cl.identity.ID = applied[0].ID
		nHealthy := 0
		for _, m := range applied {
			if healthy[m.ID] {
				nHealthy++
			}
		}
		// ---- the request
		isAdd := rapid.Bool().Draw(t, "isAdd")
		var member *consensus.Member
		var desc string
		want := true // accepted?
		why := ""
		if isAdd {
			member = mk(30)
			kind := rapid.SampledFrom([]string{"fresh", "fresh", "dup-name", "dup-id", "dup-address", "dup-peerid", "removed-id", "invalid-address", "empty-name", "zero-id"}).Draw(t, "addKind")
			victim := applied[rapid.IntRange(0, n-1).Draw(t, "victim")]
			switch kind {
			case "dup-name":
				member.Name = victim.Name
				want, why = false, "duplicate name"
			case "dup-id":
				member.ID = victim.ID
				want, why = false, "duplicate id"
			case "dup-address":
				member.Address = victim.Address
				want, why = false, "duplicate address"
			case "dup-peerid":
				member.PeerID = victim.PeerID
				want, why = false, "duplicate peer id"
			case "removed-id":
				if len(removed) > 0 {
					member.ID = removed[0].ID
					want, why = false, "re-add of a removed member"
				}
			case "invalid-address":
				member.Address = "not-a-multiaddr"
				want, why = false, "invalid address"
			case "empty-name":
				member.Name = ""
				want, why = false, "empty name"
			case "zero-id":
				member.ID = consensus.InvalidMemberID
				want, why = false, "invalid id"
			}
			if want && nHealthy != n {
				want, why = false, "an unhealthy member exists"
			}
			desc = "add:" + kind
		} else {
			kind := rapid.SampledFrom([]string{"existing", "existing", "existing", "unknown", "removed"}).Draw(t, "rmKind")
			switch kind {
			case "existing":
				v := applied[rapid.IntRange(0, n-1).Draw(t, "victim")]
				member = &consensus.Member{MemberAttr: types.MemberAttr{ID: v.ID}}
				if healthy[v.ID] {
					// removing a healthy node needs the remaining healthy nodes to keep quorum of n-1
					if nHealthy-1 < (n-1)/2+1 {
						want, why = false, "remaining healthy nodes would lose quorum"
					}
				}
				desc = fmt.Sprintf("remove:existing(healthy=%v)", healthy[v.ID])
			case "unknown":
				member = &consensus.Member{MemberAttr: types.MemberAttr{ID: 999}}
				want, why = false, "unknown member"
				desc = "remove:unknown"
			default:
				if len(removed) == 0 {
					member = &consensus.Member{MemberAttr: types.MemberAttr{ID: 999}}
					want, why = false, "unknown member"
				} else {
					member = &consensus.Member{MemberAttr: types.MemberAttr{ID: removed[0].ID}}
					want, why = false, "already removed"
				}
				desc = "remove:removed"
			}
		}
		cc := &raftpb.ConfChange{ID: 1, NodeID: member.ID, Type: raftpb.ConfChangeAddNode}
		if !isAdd {
			cc.Type = raftpb.ConfChangeRemoveNode
		}
		err := cl.validateChangeMembership(cc, member, true)
		if err == nil {
			err = cl.isEnableChangeMembership(cc)
		}
		got := err == nil
		if got != want {
			t.Fatalf("membership request %s on a cluster of %d (health %v, %d removed members) was accepted=%v (%v), the rules say accepted=%v (%s)", desc, n, hv, nrem, got, err, want, why)
		}
		unhealthy := nHealthy != n
		rec.Case(desc, fmt.Sprintf("%d|%v|%d|%s|%v", n, hv, nrem, desc, member.ID), unhealthy || !want, func() interface{} {
			return map[string]interface{}{"members": n, "health": hv, "removed": nrem, "request": desc, "accepted": got}
		})
	})
}
