//go:build verif

package dpos

import "github.com/aergoio/aergo/v2/chain"

// VerifEnableVotingReward installs the DPoS voting-reward decorator exactly as dpos.New does.
func VerifEnableVotingReward() { chain.DecorateBlockRewardFn(sendVotingReward) }
