//go:build verif

package dpos

import (
	"github.com/aergoio/aergo/v2/chain"
	"github.com/aergoio/aergo/v2/consensus/impl/dpos/bp"
	"github.com/aergoio/aergo/v2/types"
)

// VerifEnableVotingReward installs the DPoS voting-reward decorator exactly as dpos.New does.
func VerifEnableVotingReward() { chain.DecorateBlockRewardFn(sendVotingReward) }

// VerifNew builds the real DPoS consensus object for a chain service the way dpos.New does,
// minus the block factory (blocks are produced by the harness) and the voting reward.
func VerifNew(cs *chain.ChainService) (*DPoS, error) {
	cdb, sdb := cs.CDB(), cs.SDB()
	bpc, err := bp.NewCluster(cdb)
	if err != nil {
		return nil, err
	}
	Init(bpc.Size())
	return &DPoS{Status: NewStatus(bpc, cdb, sdb, 0), ChainDB: cdb, bpc: bpc}, nil
}

// The boot loader is a package global that belongs to the most recently created Status; several
// simulated nodes in one process must put their own loader back before they are driven.
func VerifLoader() interface{}     { return bsLoader }
func VerifSetLoader(l interface{}) { bsLoader = l.(*bootLoader) }

// VerifLIB returns the last irreversible block the status reports.
func (d *DPoS) VerifLIB() (types.BlockNo, string) {
	d.Status.RLock()
	defer d.Status.RUnlock()
	if d.Status.libState == nil || d.Status.libState.Lib == nil {
		return 0, ""
	}
	return d.Status.libState.Lib.BlockNo, d.Status.libState.Lib.BlockHash
}

// VerifBpIndex returns the producer index of id in the current producer set (-1: not a member).
func (d *DPoS) VerifBpIndex(id types.PeerID) int {
	i := d.bpc.BpID2Index(id)
	if !d.bpc.Has(id) {
		return -1
	}
	return int(i)
}

func (d *DPoS) VerifBpCount() int { return int(d.bpc.Size()) }

// VerifForceLoad makes the status load what the boot loader restored from the chain DB (the
// real code does this lazily inside the first Update).
func (d *DPoS) VerifForceLoad() {
	d.Status.Lock()
	defer d.Status.Unlock()
	d.Status.load()
}

// VerifRecomputeLIB replays the stored main-chain blocks 1..best through Status.Update on a
// fresh status object and returns the LIB it arrives at (the reference for "the status restored
// after a restart equals the one recomputed from the stored blocks").
func (d *DPoS) VerifRecomputeLIB() (types.BlockNo, string, error) {
	best, err := d.ChainDB.GetBestBlock()
	if err != nil {
		return 0, "", err
	}
	gen, err := d.ChainDB.GetBlockByNo(0)
	if err != nil {
		return 0, "", err
	}
	fresh := &Status{libState: newLibStatus(d.bpc.Size()), bps: d.Status.bps, sdb: d.Status.sdb, done: true, bestBlock: gen}
	fresh.libState.genesisInfo = newBlockInfo(gen)
	for i := types.BlockNo(1); i <= best.BlockNo(); i++ {
		b, err := d.ChainDB.GetBlockByNo(i)
		if err != nil {
			return 0, "", err
		}
		fresh.Update(b)
	}
	return fresh.libState.Lib.BlockNo, fresh.libState.Lib.BlockHash, nil
}

// VerifUpdateBPs replaces the current producer list (what a regime change does).
func (d *DPoS) VerifUpdateBPs(ids []string) error { return d.bpc.Update(ids) }
