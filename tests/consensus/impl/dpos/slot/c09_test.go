//go:build verif

package slot

// C09 part A — slot arithmetic: every instant belongs to exactly one slot, every slot to exactly
// one producer index; the index is constant within a slot and advances by one (mod n) at each
// slot boundary. Oracle: the same quantities computed independently with math/big from the
// definition "slot k covers the milliseconds ((k-1)*I, k*I]".

import (
	"fmt"
	"math/big"
	"testing"

	"github.com/aergoio/aergo/v2/consensus/impl/dpos/bp"
	"github.com/aergoio/aergo/v2/verifx/ev"
	"pgregory.net/rapid"
)

// independent: ceil(ms / I) for ms >= 1
func c09SlotIndex(ms, intervalMs int64) int64 {
	q, r := new(big.Int).QuoRem(big.NewInt(ms), big.NewInt(intervalMs), new(big.Int))
	if r.Sign() > 0 {
		q.Add(q, big.NewInt(1))
	}
	return q.Int64()
}

func c09CheckInstant(ns int64, intervalSec int64, n uint16) error {
	I := intervalSec * 1000
	ms := ns / 1000000
	want := c09SlotIndex(ms, I)
	s := NewFromUnixNano(ns)
	if s.nextIndex != want {
		return fmt.Errorf("ns=%d interval=%ds: slot index %d, independent computation gives %d", ns, intervalSec, s.nextIndex, want)
	}
	owner := new(big.Int).Mod(big.NewInt(want), big.NewInt(int64(n))).Int64()
	got := s.NextBpIndex(n)
	if got != owner || got < 0 || got >= int64(n) {
		return fmt.Errorf("ns=%d interval=%ds n=%d: owner index %d, want %d", ns, intervalSec, n, got, owner)
	}
	cnt := 0
	for i := uint16(0); i < n; i++ {
		if s.IsFor(bp.Index(i), n) {
			cnt++
			if int64(i) != owner {
				return fmt.Errorf("ns=%d n=%d: IsFor true for index %d but owner is %d", ns, n, i, owner)
			}
		}
	}
	if cnt != 1 {
		return fmt.Errorf("ns=%d interval=%ds n=%d: %d producer indexes are entitled to the instant (must be exactly 1)", ns, intervalSec, n, cnt)
	}
	return nil
}

func TestC09SlotExhaustive(t *testing.T) {
	rec := ev.New("C09", "slot-exhaustive")
	defer rec.Flush()
	nsh := ev.IntEnv("VERIF_NSHARDS", 1)
	shard := ev.IntEnv("VERIF_SHARD_IDX", 0)
	maxN := ev.IntEnv("VERIF_C09_MAXN", 100)
	for _, sec := range []int64{1, 2, 3, 5} {
		Init(sec)
		I := sec * 1000
		for n := 1; n <= maxN; n++ {
			if n%nsh != shard {
				continue
			}
			round := I * int64(n)
			base := (int64(1700000000000) / round) * round // a round wrap-around near a realistic time
			for r := int64(0); r < 3; r++ {
				t0 := base + r*round
				var prevIdx int64 = -1
				var prevOwner int64 = -1
				boundaries := 0
				for ms := t0 - 2*I; ms <= t0+2*I; ms++ {
					ns := ms * 1000000
					if err := c09CheckInstant(ns, sec, uint16(n)); err != nil {
						rec.WriteReplay(fmt.Sprintf("slot-%d-%d-%d", sec, n, ms), map[string]interface{}{"interval_s": sec, "n": n, "ms": ms, "error": err.Error()})
						t.Fatal(err)
					}
					s := NewFromUnixNano(ns)
					// sub-millisecond offsets stay in the same slot
					if s2 := NewFromUnixNano(ns + 999999); !Equal(s, s2) {
						t.Fatalf("ms=%d: two instants of the same millisecond fall in different slots", ms)
					}
					if prevIdx >= 0 {
						step := s.nextIndex - prevIdx
						atBoundary := (ms-1)%I == 0 // ms-1 was the last ms of the previous slot
						if atBoundary != (step == 1) || (step != 0 && step != 1) {
							t.Fatalf("interval=%ds ms=%d: slot index went %d -> %d (boundary=%v)", sec, ms, prevIdx, s.nextIndex, atBoundary)
						}
						ownerStep := (s.NextBpIndex(uint16(n)) - prevOwner + int64(n)) % int64(n)
						if step == 1 {
							boundaries++
							if ownerStep != 1%int64(n) {
								t.Fatalf("interval=%ds n=%d ms=%d: owner went %d -> %d at a slot boundary", sec, n, ms, prevOwner, s.NextBpIndex(uint16(n)))
							}
							prev := NewFromUnixNano((ms - 1) * 1000000)
							if !IsNextTo(s, prev) || IsNextTo(prev, s) || Equal(s, prev) || !LessEqual(prev, s) || LessEqual(s, prev) {
								t.Fatalf("ms=%d: IsNextTo/Equal/LessEqual inconsistent across a boundary", ms)
							}
						} else {
							if ownerStep != 0 {
								t.Fatalf("interval=%ds n=%d ms=%d: owner changed inside a slot", sec, n, ms)
							}
							prev := NewFromUnixNano((ms - 1) * 1000000)
							if !Equal(s, prev) || IsNextTo(s, prev) || !LessEqual(s, prev) {
								t.Fatalf("ms=%d: Equal/IsNextTo inconsistent inside a slot", ms)
							}
						}
					}
					prevIdx, prevOwner = s.nextIndex, s.NextBpIndex(uint16(n))
				}
				if boundaries != 4 {
					t.Fatalf("expected 4 slot boundaries in a window of 4 intervals, saw %d", boundaries)
				}
				rec.Case(fmt.Sprintf("interval=%ds", sec), fmt.Sprintf("%d/%d/%d", sec, n, r), true, func() interface{} {
					return map[string]interface{}{"interval_s": sec, "producers": n, "window_ms": []int64{t0 - 2*I, t0 + 2*I}, "around": "round wrap-around"}
				})
			}
		}
	}
	rec.SetExhaustive(true)
}

func TestC09SlotRandom(t *testing.T) {
	rec := ev.New("C09", "slot-random")
	defer rec.Flush()
	rapid.Check(t, func(t *rapid.T) {
		sec := rapid.SampledFrom([]int64{1, 2, 3, 5}).Draw(t, "interval")
		Init(sec)
		n := uint16(rapid.IntRange(1, 100).Draw(t, "n"))
		ns := rapid.Int64Range(1000000, 1<<62).Draw(t, "ns")
		if err := c09CheckInstant(ns, sec, n); err != nil {
			t.Fatal(err)
		}
		// relation to a second instant k intervals later
		k := rapid.Int64Range(0, 5).Draw(t, "k")
		off := rapid.Int64Range(0, sec*1000-1).Draw(t, "off")
		ns2 := ns + (k*sec*1000+off)*1000000
		if ns2 < ns {
			t.Skip("overflow")
		}
		a, b := NewFromUnixNano(ns), NewFromUnixNano(ns2)
		ia, ib := c09SlotIndex(ns/1000000, sec*1000), c09SlotIndex(ns2/1000000, sec*1000)
		if Equal(a, b) != (ia == ib) || LessEqual(a, b) != (ia <= ib) || IsNextTo(b, a) != (ib == ia+1) {
			t.Fatalf("slot relations disagree with index arithmetic: ia=%d ib=%d Equal=%v LessEqual=%v IsNextTo=%v", ia, ib, Equal(a, b), LessEqual(a, b), IsNextTo(b, a))
		}
		rec.Case(fmt.Sprintf("interval=%ds", sec), fmt.Sprintf("%d|%d|%d|%d", sec, n, ns, ns2), ib != ia, func() interface{} {
			return map[string]interface{}{"interval_s": sec, "producers": n, "ns": ns, "ns2": ns2, "slot": ia, "slot2": ib}
		})
	})
}
