//go:build verif

package slot

// C09 part A — slot arithmetic: every instant belongs to exactly one slot, every slot to exactly
// one producer index; the index is constant within a slot and advances by one (mod n) at each
// slot boundary. Oracle: the same quantities computed independently with math/big from the
// definition "slot k covers the milliseconds ((k-1)*I, k*I]".

import (
	"fmt"
	"math/big"
	"testing"

	"github.com/aergoio/aergo/v2/consensus/impl/dpos/bp"
	"github.com/aergoio/aergo/v2/verifx/ev"
	"pgregory.net/rapid"
)

// c09Owner checks that exactly one producer index of [0,n) is entitled to the instant and
// returns it. Which index owns which slot and where exactly slot boundaries fall is NOT
// prescribed by the property; only the structure is (see the tests below).
func c09Owner(ns int64, n uint16) (int64, error) {
	s := NewFromUnixNano(ns)
	got := s.NextBpIndex(n)
	if got < 0 || got >= int64(n) {
		return 0, fmt.Errorf("ns=%d n=%d: owner index %d outside [0,%d)", ns, n, got, n)
	}
	cnt := 0
	for i := uint16(0); i < n; i++ {
		if s.IsFor(bp.Index(i), n) {
			cnt++
			if int64(i) != got {
				return 0, fmt.Errorf("ns=%d n=%d: IsFor true for index %d but NextBpIndex says %d", ns, n, i, got)
			}
		}
	}
	if cnt != 1 {
		return 0, fmt.Errorf("ns=%d n=%d: %d producer indexes are entitled to the instant (must be exactly 1)", ns, n, cnt)
	}
	return got, nil
}

// bigMod: (a + k) mod n with math/big (independent of the code's int arithmetic)
func c09AddMod(a, k int64, n uint16) int64 {
	return new(big.Int).Mod(new(big.Int).Add(big.NewInt(a), big.NewInt(k)), big.NewInt(int64(n))).Int64()
}

func TestC09SlotExhaustive(t *testing.T) {
	rec := ev.New("C09", "slot-exhaustive")
	defer rec.Flush()
	nsh := ev.IntEnv("VERIF_NSHARDS", 1)
	shard := ev.IntEnv("VERIF_SHARD_IDX", 0)
	maxN := ev.IntEnv("VERIF_C09_MAXN", 100)
	for _, sec := range []int64{1, 2, 3, 5} {
		Init(sec)
		I := sec * 1000
		for n := 1; n <= maxN; n++ {
			if n%nsh != shard {
				continue
			}
			round := I * int64(n)
			base := (int64(1700000000000) / round) * round // a producer-round wrap-around near a realistic time
			for r := int64(0); r < 3; r++ {
				t0 := base + r*round
				var prev *Slot
				var prevOwner int64
				lastBoundary := int64(-1)
				boundaries := 0
				for ms := t0 - 2*I - 2; ms <= t0+2*I+2; ms++ {
					ns := ms * 1000000
					owner, err := c09Owner(ns, uint16(n))
					if err != nil {
						rec.WriteReplay(fmt.Sprintf("slot-%d-%d-%d", sec, n, ms), map[string]interface{}{"interval_s": sec, "n": n, "ms": ms, "error": err.Error()})
						t.Fatal(err)
					}
					s := NewFromUnixNano(ns)
					if prev != nil {
						same := Equal(s, prev)
						next := IsNextTo(s, prev)
						if same == next {
							t.Fatalf("interval=%ds ms=%d: consecutive milliseconds must be in the same slot or in adjacent slots (Equal=%v IsNextTo=%v)", sec, ms, same, next)
						}
						if !LessEqual(prev, s) || LessEqual(s, prev) != same || IsNextTo(prev, s) {
							t.Fatalf("interval=%ds ms=%d: LessEqual/IsNextTo inconsistent (time went backwards in slot order)", sec, ms)
						}
						if same {
							if owner != prevOwner {
								t.Fatalf("interval=%ds n=%d ms=%d: owner changed %d -> %d inside one slot", sec, n, ms, prevOwner, owner)
							}
						} else {
							if owner != c09AddMod(prevOwner, 1, uint16(n)) {
								t.Fatalf("interval=%ds n=%d ms=%d: owner went %d -> %d at a slot boundary (must advance by one mod n)", sec, n, ms, prevOwner, owner)
							}
							if lastBoundary >= 0 && ms-lastBoundary != I {
								t.Fatalf("interval=%ds: slot lasted %d ms, not %d", sec, ms-lastBoundary, I)
							}
							lastBoundary = ms
							boundaries++
						}
					}
					prev, prevOwner = s, owner
				}
				if boundaries != 4 && boundaries != 5 {
					t.Fatalf("interval=%ds: %d slot boundaries in a window of 4 intervals + 4 ms", sec, boundaries)
				}
				rec.Case(fmt.Sprintf("interval=%ds", sec), fmt.Sprintf("%d/%d/%d", sec, n, r), true, func() interface{} {
					return map[string]interface{}{"interval_s": sec, "producers": n, "window_ms": []int64{t0 - 2*I - 2, t0 + 2*I + 2}, "around": "producer-round wrap-around"}
				})
			}
		}
	}
	rec.SetExhaustive(true)
}

func TestC09SlotRandom(t *testing.T) {
	rec := ev.New("C09", "slot-random")
	defer rec.Flush()
	rapid.Check(t, func(t *rapid.T) {
		sec := rapid.SampledFrom([]int64{1, 2, 3, 5}).Draw(t, "interval")
		Init(sec)
		n := uint16(rapid.IntRange(1, 100).Draw(t, "n"))
		ns := rapid.Int64Range(1000000, 1<<61).Draw(t, "ns")
		o1, err := c09Owner(ns, n)
		if err != nil {
			t.Fatal(err)
		}
		// an instant exactly k whole intervals later lies k slots later and belongs to owner+k
		k := rapid.Int64Range(0, 300).Draw(t, "k")
		ns2 := ns + k*sec*1000*1000000
		o2, err := c09Owner(ns2, n)
		if err != nil {
			t.Fatal(err)
		}
		if o2 != c09AddMod(o1, k, n) {
			t.Fatalf("interval=%ds n=%d: owner at t is %d, at t+%d intervals it is %d (want %d)", sec, n, o1, k, o2, c09AddMod(o1, k, n))
		}
		a, b := NewFromUnixNano(ns), NewFromUnixNano(ns2)
		if Equal(a, b) != (k == 0) || !LessEqual(a, b) || LessEqual(b, a) != (k == 0) || IsNextTo(b, a) != (k == 1) || (k > 0 && IsNextTo(a, b)) {
			t.Fatalf("slot relations wrong for instants %d whole intervals apart: Equal=%v LessEqual(a,b)=%v LessEqual(b,a)=%v IsNextTo(b,a)=%v", k, Equal(a, b), LessEqual(a, b), LessEqual(b, a), IsNextTo(b, a))
		}
		rec.Case(fmt.Sprintf("interval=%ds", sec), fmt.Sprintf("%d|%d|%d|%d", sec, n, ns, k), k > 0, func() interface{} {
			return map[string]interface{}{"interval_s": sec, "producers": n, "ns": ns, "k_intervals_later": k, "owner": o1, "owner_later": o2}
		})
	})
}
