//go:build verif

package syncer

// C17 — block sync. The REAL Syncer (finder, hash fetcher, block fetcher, block processor) runs
// against a harness that plays every other actor: each request the syncer emits (GetAnchors,
// GetSyncAncestor, GetHashByNo, GetHashes, GetPeers, GetBlockChunks, AddBlock) is answered
// according to a generated fault plan — correctly, with an error, with too few / too many /
// unlinked / foreign blocks, late (after other answers) or never — and stale answers of an old
// session are injected. Oracle: the blocks handed to the chain service form a strictly ascending,
// gap-free, parent-linked run starting right above an ancestor that both chains share (the
// highest shared block when the anchor scan is disabled or finds nothing); the session ends
// exactly once, with success iff the target was reached; and a new session can be started.

import (
	"bytes"
	"fmt"
	"os"
	"sort"
	"strings"
	"testing"
	"time"

	"github.com/aergoio/aergo/v2/chain"
	"github.com/aergoio/aergo/v2/types"
	"github.com/aergoio/aergo/v2/types/message"
	"github.com/aergoio/aergo/v2/verifx/ev"
	"pgregory.net/rapid"
)

type c17plan struct {
	kinds map[string][]string // request kind -> cyclic list of decisions
	pos   map[string]int
	chunk int // block request size: hash-list faults are placed where one fetch task ends and the next begins
}

// boundary: an index inside hs at which a fetch task begins (a multiple of the chunk size), or the middle.
func (p *c17plan) boundary(n int) int {
	if p.chunk > 0 && n > p.chunk {
		return ((n - 1) / p.chunk / 2 * p.chunk) + p.chunk
	}
	return n / 2
}

func (p *c17plan) next(kind string) string {
	l := p.kinds[kind]
	if len(l) == 0 {
		return "ok"
	}
	d := l[p.pos[kind]%len(l)]
	p.pos[kind]++
	return d
}

type c17run struct {
	slow       bool   // still exchanging messages at the deadline: not judged
	wedged     string // type of the message whose handling never returned
	anchorMiss bool   // the remote honestly found none of the anchors on its chain
	added      []*types.Block
	ancestor   *types.BlockInfo
	stops      []error
	faults     map[string]int
}

// c17Session drives one synchronisation session to its end. Returns false when it did not end
// within the deadline.
//
// A session counts as stalled (return value false) when it is still running and has sent no request for
// c17Quiet: a live session always has something outstanding — a lost block request is retried every 250 ms, the
// harness releases delayed answers as soon as the syncer goes quiet. A session that keeps sending requests but has
// not ended after the (much longer) deadline is merely slow: run.slow is set and the case is not judged.
const c17Quiet = 8 * time.Second

func c17Session(t *rapid.T, s *Syncer, req *StubRequester, local, remote, foreign *chain.StubBlockChain, peers []*StubPeer, plan *c17plan, target uint64, run *c17run, deadline time.Duration) bool {
	lastActivity := time.Now()
	notify := make(chan error, 4)
	req.TellTo(message.SyncerSvc, &message.SyncStart{PeerID: targetPeerID, TargetNo: target, NotifyC: notify})
	var late []interface{}
	var lateNotBefore time.Time
	flushLate := func() {
		for _, m := range late {
			req.TellTo(message.SyncerSvc, m)
		}
		late = nil
	}
	timeout := time.After(deadline)
	started := false
	for {
		var msg interface{}
		select {
		case msg = <-req.sendCh:
			lastActivity = time.Now()
		case <-time.After(40 * time.Millisecond):
			// quiet: release delayed answers; finished?
			if len(late) > 0 && time.Now().After(lateNotBefore) {
				flushLate()
				continue
			}
			if started && !s.isRunning {
				return true
			}
			if time.Since(lastActivity) > c17Quiet {
				return false
			}
			select {
			case <-timeout:
				run.slow = true
				return true
			default:
			}
			continue
		}
		switch m := msg.(type) {
		case *message.GetAnchors:
			hashes, lastno, err := local.GetAnchors()
			req.sendReply(StubRequestResult{message.GetAnchorsRsp{Seq: m.Seq, Hashes: hashes, LastNo: lastno, Err: err}, nil})
		case *message.GetPeers:
			req.sendReply(StubRequestResult{makePeerReply(peers), nil})
		case *message.GetSyncAncestor:
			d := plan.next("ancestor")
			run.faults["ancestor:"+d]++
			switch d {
			case "nil":
				req.TellTo(message.SyncerSvc, &message.GetSyncAncestorRsp{Seq: m.Seq, Ancestor: nil})
			case "stale":
				req.TellTo(message.SyncerSvc, &message.GetSyncAncestorRsp{Seq: m.Seq - 1, Ancestor: &types.BlockInfo{Hash: remote.Hashes[0], No: 0}})
				req.TellTo(message.SyncerSvc, &message.GetSyncAncestorRsp{Seq: m.Seq, Ancestor: remote.GetAncestorWithHashes(m.Hashes)})
			default:
				anc := remote.GetAncestorWithHashes(m.Hashes)
				if anc == nil {
					run.anchorMiss = true
				}
				req.TellTo(message.SyncerSvc, &message.GetSyncAncestorRsp{Seq: m.Seq, Ancestor: anc})
			}
		case *message.GetHashByNo:
			d := plan.next("hashbyno")
			run.faults["hashbyno:"+d]++
			hash, err := remote.GetHashByNo(m.BlockNo)
			if d == "err" {
				hash, err = nil, fmt.Errorf("injected")
			}
			if d == "late" {
				// answered only after the finder has given up waiting (its timer is the fetch timeout)
				late = append(late, &message.GetHashByNoRsp{Seq: m.Seq, BlockHash: hash, Err: err})
				lateNotBefore = time.Now().Add(400 * time.Millisecond)
				continue
			}
			req.TellTo(message.SyncerSvc, &message.GetHashByNoRsp{Seq: m.Seq, BlockHash: hash, Err: err})
		case *message.GetHashes:
			d := plan.next("hashes")
			run.faults["hashes:"+d]++
			hs, err := remote.GetHashes(m.PrevInfo, m.Count)
			rsp := &message.GetHashesRsp{Seq: m.Seq, PrevInfo: m.PrevInfo, Hashes: hs, Count: uint64(len(hs)), Err: err}
			switch d {
			case "err":
				rsp.Err = fmt.Errorf("injected")
			case "hole":
				// a hash list that skips one block in the middle
				if len(hs) > 2 {
					i := plan.boundary(len(hs))
					if i >= len(hs) {
						i = len(hs) / 2
					}
					// (the count stays what was asked for: the list goes one block further instead)
					if next := int(m.PrevInfo.No) + len(hs) + 1; next <= remote.Best {
						c := append(append([]message.BlockHash{}, hs[:i]...), hs[i+1:]...)
						c = append(c, message.BlockHash(remote.Hashes[next]))
						rsp.Hashes, rsp.Count = c, uint64(len(c))
					}
				}
			case "fork-switch":
				// from the middle on, the hashes of another chain's blocks at the same heights
				if len(hs) > 1 {
					i := plan.boundary(len(hs))
					if i >= len(hs) {
						i = len(hs) / 2
					}
					c := append([]message.BlockHash{}, hs[:i]...)
					for k := i; k < len(hs); k++ {
						no := int(m.PrevInfo.No) + 1 + k
						if no <= foreign.Best {
							c = append(c, message.BlockHash(foreign.Hashes[no]))
						}
					}
					rsp.Hashes, rsp.Count = c, uint64(len(c))
				}
			case "short":
				if len(hs) > 1 {
					rsp.Hashes, rsp.Count = hs[:len(hs)-1], uint64(len(hs)-1)
				}
			case "stale":
				req.TellTo(message.SyncerSvc, &message.GetHashesRsp{Seq: m.Seq - 1, PrevInfo: m.PrevInfo, Hashes: hs, Count: uint64(len(hs))})
			}
			req.TellTo(message.SyncerSvc, rsp)
		case *message.GetBlockChunks:
			d := plan.next("blocks")
			run.faults["blocks:"+d]++
			blocks, err := remote.GetBlocks(m.Hashes)
			if err != nil {
				// the peer serves whatever blocks it has, also those of another branch
				blocks, err = nil, nil
				for _, h := range m.Hashes {
					b, e := remote.GetBlock(h)
					if e != nil {
						b, e = foreign.GetBlock(h)
					}
					if e != nil {
						err = e
						break
					}
					blocks = append(blocks, b)
				}
			}
			rsp := &message.GetBlockChunksRsp{Seq: m.Seq, ToWhom: m.ToWhom, Blocks: blocks, Err: err}
			switch d {
			case "err":
				rsp.Blocks, rsp.Err = nil, fmt.Errorf("injected")
			case "short":
				if len(blocks) > 1 {
					rsp.Blocks = blocks[:len(blocks)-1]
				}
			case "extra":
				if last := blocks[len(blocks)-1]; int(last.BlockNo())+1 <= remote.Best {
					rsp.Blocks = append(append([]*types.Block{}, blocks...), remote.Blocks[last.BlockNo()+1])
				}
			case "unlinked":
				if len(blocks) > 1 {
					c := append([]*types.Block{}, blocks...)
					c[0], c[1] = c[1], c[0]
					rsp.Blocks = c
				}
			case "foreign":
				// a block of another chain with the right number in the middle
				c := append([]*types.Block{}, blocks...)
				i := len(c) / 2
				if no := c[i].BlockNo(); int(no) <= foreign.Best {
					c[i] = foreign.Blocks[no]
					rsp.Blocks = c
				}
			case "never":
				continue
			case "late":
				late = append(late, rsp)
				continue
			case "stale":
				req.TellTo(message.SyncerSvc, &message.GetBlockChunksRsp{Seq: m.Seq - 1, ToWhom: m.ToWhom, Blocks: blocks})
			}
			req.TellTo(message.SyncerSvc, rsp)
		case *message.AddBlock:
			run.added = append(run.added, m.Block)
			d := plan.next("addblock")
			run.faults["addblock:"+d]++
			err := local.AddBlock(m.Block)
			if d == "err" && err == nil {
				// the chain service refuses the block (e.g. validation failure)
				local.Rollback(&types.BlockInfo{No: m.Block.BlockNo() - 1})
				err = fmt.Errorf("injected chain error")
			}
			req.TellTo(message.SyncerSvc, &message.AddBlockRsp{BlockNo: m.Block.GetHeader().BlockNo, BlockHash: m.Block.GetHash(), Err: err})
		default:
			// addressed to the syncer itself
			switch x := msg.(type) {
			case *message.SyncStart:
				started = true
			case *message.FinderResult:
				if x.Ancestor != nil && x.Err == nil && x.Seq == s.Seq {
					run.ancestor = x.Ancestor
					local.Rollback(x.Ancestor)
				}
			case *message.SyncStop:
				if x.Seq == s.Seq {
					run.stops = append(run.stops, x.Err)
				}
			}
			// the syncer's actor handles one message at a time: if handling one never returns, the syncer is dead
			handle := func(m interface{}) bool {
				handled := make(chan struct{})
				go func() { s.handleMessage(m); close(handled) }()
				select {
				case <-handled:
					return true
				case <-time.After(20 * time.Second):
					run.wedged = fmt.Sprintf("%T", m)
					return false
				}
			}
			if _, isStop := msg.(*message.SyncStop); isStop && s.isRunning && len(late) > 0 {
				// a delayed answer that reached the mailbox just before the stop request a component sent on its timer
				pend := late
				late = nil
				for _, lm := range pend {
					if _, ok := lm.(*message.GetHashByNoRsp); ok && s.isRunning {
						if !handle(lm) {
							return false
						}
					}
				}
			}
			if s.isRunning || isSyncStart(msg) {
				if !handle(msg) {
					return false
				}
			}
		}
		select {
		case <-timeout:
			run.slow = true
			return true
		default:
		}
	}
}

func isSyncStart(m interface{}) bool { _, ok := m.(*message.SyncStart); return ok }

func TestC17Sync(t *testing.T) {
	rec := ev.New("C17", "sync")
	defer rec.Flush()
	// the hash fetcher's response timeout is a package variable (180 s in production): shortened so that an
	// invalid hash answer, which the fetcher only notices by timing out, ends the session quickly
	savedTimeout := dfltTimeout
	dfltTimeout = 1500 * time.Millisecond
	defer func() { dfltTimeout = savedTimeout }()
	rapid.Check(t, func(t *rapid.T) {
		common := rapid.IntRange(0, 12).Draw(t, "commonHeight")     // highest shared block
		if rapid.IntRange(0, 9).Draw(t, "longChain") < 2 {
			// a chain longer than the span of the anchors (32 anchors, 16 blocks apart): the lowest anchor is not genesis
			common = 497 + rapid.IntRange(0, 40).Draw(t, "commonAboveAnchorSpan")
		}
		localExtra := rapid.IntRange(0, 8).Draw(t, "localExtra")    // local blocks above it
		remoteExtra := rapid.IntRange(1, 40).Draw(t, "remoteExtra") // remote blocks above it
		base := chain.InitStubBlockChain(nil, common+1)
		remote := chain.InitStubBlockChain(base.Blocks[0:common+1], remoteExtra)
		local := chain.InitStubBlockChain(base.Blocks[0:common+1], localExtra)
		foreign := chain.InitStubBlockChain(base.Blocks[0:1], common+remoteExtra)
		target := uint64(common + rapid.IntRange(1, remoteExtra).Draw(t, "targetAbove"))
		if int(target) <= local.Best {
			target = uint64(local.Best + 1)
			if int(target) > remote.Best {
				t.Skip("local chain is not behind")
			}
		}
		npeers := rapid.IntRange(1, 3).Draw(t, "npeers")
		var chains []*chain.StubBlockChain
		for i := 0; i < npeers; i++ {
			chains = append(chains, remote)
		}
		peers := makeStubPeerSet(chains)
		cfg := &SyncerConfig{
			maxHashReqSize:   uint64(rapid.IntRange(3, 7).Draw(t, "maxHashReq")),
			maxBlockReqSize:  rapid.IntRange(2, 5).Draw(t, "maxBlockReq"),
			maxPendingConn:   rapid.IntRange(2, 6).Draw(t, "maxPending"),
			maxBlockReqTasks: rapid.IntRange(1, 4).Draw(t, "maxTasks"),
			fetchTimeOut:     250 * time.Millisecond,
			useFullScanOnly:  rapid.Bool().Draw(t, "fullScanOnly"),
			debugContext:     &SyncerDebug{expAncestor: -2, logBadPeers: map[int]bool{}},
		}
		plan := &c17plan{kinds: map[string][]string{}, pos: map[string]int{}, chunk: cfg.maxBlockReqSize}
		faulty := rapid.IntRange(0, 3).Draw(t, "faultLevel")
		drawList := func(name string, opts []string) {
			n := rapid.IntRange(1, 6).Draw(t, name+"N")
			var l []string
			for i := 0; i < n; i++ {
				if faulty == 0 || rapid.IntRange(0, 3).Draw(t, name+"ok") >= faulty {
					l = append(l, "ok")
				} else {
					l = append(l, rapid.SampledFrom(opts).Draw(t, name))
				}
			}
			plan.kinds[name] = l
		}
		// "loss" mode: the only faults are block requests that are never answered or answered late, so that the
		// retry path runs while later chunks pile up in the connect queue
		lossOnly := faulty > 0 && rapid.IntRange(0, 2).Draw(t, "lossOnly") == 0
		if lossOnly {
			drawList("blocks", []string{"never", "never", "late"})
		} else {
			drawList("ancestor", []string{"stale", "nil"})
			drawList("hashbyno", []string{"err", "late"})
			drawList("hashes", []string{"err", "short", "stale", "hole", "fork-switch"})
			drawList("blocks", []string{"err", "short", "extra", "unlinked", "foreign", "never", "late", "late", "stale"})
			drawList("addblock", []string{"err"})
		}
		// the short hash-fetcher timer is only needed when a hash answer is made invalid (the fetcher notices that
		// only by timing out); otherwise the production-like long timer stays, so that a session which stops making
		// progress shows as a stall and not as a "timeout" error a few hundred milliseconds later
		dfltTimeout = 120 * time.Second
		for _, d := range plan.kinds["hashes"] {
			if d == "err" || d == "short" || d == "hole" || d == "fork-switch" {
				dfltTimeout = 1500 * time.Millisecond
			}
		}
		s := NewSyncer(nil, local, cfg)
		req := NewStubRequester()
		s.SetRequester(req)
		run := &c17run{faults: map[string]int{}}
		desc := fmt.Sprintf("common=%d local=%d remote=%d target=%d peers=%d cfg{hash=%d block=%d pending=%d tasks=%d full=%v} plan=%v", common, local.Best, remote.Best, target, npeers,
			cfg.maxHashReqSize, cfg.maxBlockReqSize, cfg.maxPendingConn, cfg.maxBlockReqTasks, cfg.useFullScanOnly, plan.kinds)
		ended := c17Session(t, s, req, local, remote, foreign, peers, plan, target, run, 90*time.Second)
		if run.slow {
			rec.Label("slow-session-not-judged")
			t.Skip("session still live at the deadline")
		}
		var got []string
		for _, b := range run.added {
			got = append(got, fmt.Sprintf("%d", b.BlockNo()))
		}
		where := desc + "\nblocks handed to the chain service: " + strings.Join(got, ",")
		if os.Getenv("VERIF_C17_TRACE") != "" && lossOnly {
			fmt.Printf("TRACE ended=%v stops=%v best=%d %s\n", ended, run.stops, local.Best, where)
		}
		if !ended {
			if run.wedged != "" {
				t.Fatalf("VERIF-STALL the syncer's message handler did not return from a %s within 20 s: the actor is blocked for good\n%s", run.wedged, where)
			}
			t.Fatalf("VERIF-STALL the synchronisation is still running but has sent no request for %v (stops=%v)\n%s", c17Quiet, run.stops, where)
		}
		// ---- ordering of delivered blocks
		if len(run.added) > 0 {
			if run.ancestor == nil {
				t.Fatalf("blocks were delivered without an ancestor having been determined\n%s", where)
			}
			prevNo, prevHash := run.ancestor.No, run.ancestor.Hash
			seen := map[string]bool{}
			for i, b := range run.added {
				if seen[string(b.BlockHash())] {
					t.Fatalf("block %d was delivered twice (position %d)\n%s", b.BlockNo(), i, where)
				}
				seen[string(b.BlockHash())] = true
				if b.BlockNo() != prevNo+1 {
					t.Fatalf("position %d: block %d delivered after block %d (ancestor %d): not ascending and gap-free\n%s", i, b.BlockNo(), prevNo, run.ancestor.No, where)
				}
				if !bytes.Equal(b.GetHeader().GetPrevBlockHash(), prevHash) {
					t.Fatalf("position %d: block %d is not a child of the block delivered before it\n%s", i, b.BlockNo(), where)
				}
				prevNo, prevHash = b.BlockNo(), b.BlockHash()
			}
		}
		// ---- the ancestor is shared, and the highest shared one when no anchor scan result was used
		honestMiss := run.anchorMiss
		if run.ancestor != nil {
			if int(run.ancestor.No) > common || !bytes.Equal(run.ancestor.Hash, remote.Hashes[run.ancestor.No]) || !bytes.Equal(run.ancestor.Hash, base.Hashes[run.ancestor.No]) {
				t.Fatalf("the ancestor %d/%x is not a block that both chains share (highest shared block: %d)\n%s", run.ancestor.No, run.ancestor.Hash[:4], common, where)
			}
			// the quick comparison found none: because the remote chain has none of the anchors, or because the answer
			// of the remote peer said so (a busy peer's error status reaches the finder as "no ancestor")
			quickNone := honestMiss || run.faults["ancestor:nil"] > 0
			if (cfg.useFullScanOnly || quickNone) && int(run.ancestor.No) != common {
				t.Fatalf("the quick anchor comparison found none (remote chain has none of the anchors: %v, answered 'none': %d) and the full scan determined ancestor %d, but the highest shared block is %d\n%s", honestMiss, run.faults["ancestor:nil"], run.ancestor.No, common, where)
			}
		}
		// ---- exactly one end, success iff the target was reached
		if len(run.stops) > 1 {
			// several components may report; what matters is the state
		}
		if s.isRunning {
			t.Fatalf("the session has ended but the syncer still claims to be running\n%s", where)
		}
		success := len(run.stops) > 0 && run.stops[len(run.stops)-1] == nil
		allOK := true
		for k, v := range run.faults {
			if v > 0 && !strings.HasSuffix(k, ":ok") && !strings.HasSuffix(k, ":stale") && !strings.HasSuffix(k, ":late") {
				allOK = false
			}
		}
		if success && uint64(local.Best) < target {
			t.Fatalf("the session reported success but the chain is at %d, target %d\n%s", local.Best, target, where)
		}
		// a session that ended on one of the syncer's own response timers is a statement about this machine's load,
		// not about the property: not judged
		timedOut := false
		for _, e := range run.stops {
			if e != nil && strings.Contains(strings.ToLower(e.Error()), "timeout") {
				timedOut = true
			}
		}
		if allOK && !timedOut && (!success || uint64(local.Best) < target) {
			t.Fatalf("no peer misbehaved (only delays / stale messages) but the session ended with stops=%v at height %d, target %d\n%s", run.stops, local.Best, target, where)
		}
		// ---- a later synchronisation can start
		if uint64(local.Best) < uint64(remote.Best) {
			plan2 := &c17plan{kinds: map[string][]string{}, pos: map[string]int{}}
			run2 := &c17run{faults: map[string]int{}}
			// a fresh requester: the stub's single reply channel may still hold the answer to a future request of
			// the first session (a real hub pairs every future with its own reply)
			req = NewStubRequester()
			s.SetRequester(req)
			dfltTimeout = 120 * time.Second
			ok2 := c17Session(t, s, req, local, remote, foreign, peers, plan2, uint64(remote.Best), run2, 90*time.Second)
			if run2.slow {
				rec.Label("slow-session-not-judged")
				t.Skip("second session still live at the deadline")
			}
			if !ok2 {
				t.Fatalf("VERIF-STALL a second, fault-free synchronisation did not end\n%s", where)
			}
			timedOut2 := false
			for _, e := range run2.stops {
				if e != nil && strings.Contains(strings.ToLower(e.Error()), "timeout") {
					timedOut2 = true
				}
			}
			if local.Best != remote.Best && !timedOut2 {
				t.Fatalf("a second, fault-free synchronisation after the first one ended at %d instead of %d (stops %v)\n%s", local.Best, remote.Best, run2.stops, where)
			}
		}
		var fk []string
		nf := 0
		for k, v := range run.faults {
			if v > 0 && !strings.HasSuffix(k, ":ok") {
				fk = append(fk, k)
				nf++
			}
		}
		sort.Strings(fk)
		chunks := (int(target) - common + cfg.maxBlockReqSize - 1) / cfg.maxBlockReqSize
		rec.Case(strings.Join(fk, ","), desc, nf > 0 && chunks >= 2, func() interface{} {
			return map[string]interface{}{"scenario": desc, "delivered": got, "ended_with": fmt.Sprintf("%v", run.stops)}
		})
	})
}
