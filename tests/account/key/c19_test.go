//go:build verif

package key

// C19 (signing digest of transactions): the digest that is signed covers every field of the
// body except the signature, and a signature made over it verifies only for that body.

import (
	"bytes"
	"fmt"
	"testing"

	"github.com/aergoio/aergo/v2/types"
	"github.com/aergoio/aergo/v2/verifx/ev"
	"github.com/btcsuite/btcd/btcec/v2"
	"pgregory.net/rapid"
)

func TestC19TxSignDigest(t *testing.T) {
	rec := ev.New("C19", "tx-sign-digest")
	defer rec.Flush()
	fields := []string{"Nonce", "Account", "Recipient", "Amount", "Payload", "GasLimit", "GasPrice", "Type", "ChainIdHash", "Sign"}
	bs := func(t *rapid.T, l string, min, max int) []byte {
		return rapid.SliceOfN(rapid.Byte(), min, max).Draw(t, l)
	}
	rapid.Check(t, func(t *rapid.T) {
		seed := bs(t, "keyseed", 32, 32)
		seed[0] |= 1
		priv, pub := btcec.PrivKeyFromBytes(seed)
		body := &types.TxBody{Nonce: rapid.Uint64().Draw(t, "nonce"), Account: pub.SerializeCompressed(), Recipient: bs(t, "rcpt", 0, 33),
			Amount: bs(t, "amount", 0, 12), Payload: bs(t, "payload", 0, 48), GasLimit: rapid.Uint64().Draw(t, "gl"), GasPrice: bs(t, "gp", 0, 8),
			Type: types.TxType(rapid.IntRange(0, 8).Draw(t, "type")), ChainIdHash: bs(t, "cid", 32, 32)}
		tx := &types.Tx{Body: body}
		if err := SignTx(tx, priv); err != nil {
			t.Fatal(err)
		}
		if err := VerifyTx(tx); err != nil {
			t.Fatalf("freshly signed tx does not verify: %v", err)
		}
		if !bytes.Equal(tx.Hash, tx.CalculateTxHash()) {
			t.Fatalf("SignTx left a hash that is not the tx id")
		}
		dig := CalculateHashWithoutSign(body)
		f := rapid.SampledFrom(fields).Draw(t, "field")
		m := tx.Clone()
		mut := func(b []byte, l string) []byte {
			o := append([]byte{}, b...)
			if len(o) > 0 && rapid.Bool().Draw(t, l+"-flip") {
				i := rapid.IntRange(0, len(o)*8-1).Draw(t, l+"-bit")
				o[i/8] ^= 1 << uint(i%8)
				return o
			}
			return append(o, rapid.Byte().Draw(t, l+"-app"))
		}
		switch f {
		case "Nonce":
			m.Body.Nonce += rapid.Uint64Range(1, 1<<40).Draw(t, "d")
		case "Account":
			// another valid key: the signature must not verify for it
			s2 := bs(t, "keyseed2", 32, 32)
			s2[0] |= 1
			_, pub2 := btcec.PrivKeyFromBytes(s2)
			m.Body.Account = pub2.SerializeCompressed()
			if bytes.Equal(m.Body.Account, body.Account) {
				t.Skip("same key drawn")
			}
		case "Recipient":
			m.Body.Recipient = mut(m.Body.Recipient, "r")
		case "Amount":
			m.Body.Amount = mut(m.Body.Amount, "a")
		case "Payload":
			m.Body.Payload = mut(m.Body.Payload, "p")
		case "GasLimit":
			m.Body.GasLimit += rapid.Uint64Range(1, 1<<40).Draw(t, "d")
		case "GasPrice":
			m.Body.GasPrice = mut(m.Body.GasPrice, "g")
		case "Type":
			m.Body.Type = types.TxType((int(m.Body.Type) + rapid.IntRange(1, 8).Draw(t, "dt")) % 9)
		case "ChainIdHash":
			m.Body.ChainIdHash = mut(m.Body.ChainIdHash, "c")
		case "Sign":
			m.Body.Sign = mut(m.Body.Sign, "s")
		}
		mdig := CalculateHashWithoutSign(m.Body)
		if f == "Sign" {
			if !bytes.Equal(dig, mdig) {
				t.Fatalf("signing digest depends on the signature")
			}
		} else {
			if bytes.Equal(dig, mdig) {
				t.Fatalf("signing digest does not cover field %s", f)
			}
			if err := VerifyTx(m); err == nil {
				t.Fatalf("signature still verifies after changing field %s", f)
			}
		}
		rec.Case("field:"+f, fmt.Sprintf("%x|%s", dig, f), f != "Sign", func() interface{} {
			return map[string]interface{}{"mutated_field": f, "digest": fmt.Sprintf("%x", dig), "mutated_digest": fmt.Sprintf("%x", mdig)}
		})
	})
}
