//go:build verif

package trie

// VerifWalk returns every (key, value) pair reachable from root, surfacing node-loading
// errors (GetKeys swallows them). Keys are returned in ascending order.
func (s *Trie) VerifWalk(root []byte) (keys, values [][]byte, err error) {
	s.lock.RLock()
	defer s.lock.RUnlock()
	s.atomicUpdate = false
	err = s.verifWalk(root, nil, 0, s.TrieHeight, &keys, &values)
	return
}

func (s *Trie) verifWalk(root []byte, batch [][]byte, iBatch, height int, keys, values *[][]byte) error {
	if len(root) == 0 {
		return nil
	}
	batch, iBatch, lnode, rnode, isShortcut, err := s.loadChildren(root, height, iBatch, batch)
	if err != nil {
		return err
	}
	if isShortcut {
		*keys = append(*keys, append([]byte{}, lnode[:HashLength]...))
		*values = append(*values, append([]byte{}, rnode[:HashLength]...))
		return nil
	}
	if err := s.verifWalk(lnode, batch, 2*iBatch+1, height-1, keys, values); err != nil {
		return err
	}
	return s.verifWalk(rnode, batch, 2*iBatch+2, height-1, keys, values)
}
