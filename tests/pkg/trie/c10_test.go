//go:build verif

package trie

// C10 — the sparse Merkle state trie is a content-addressed, history-independent,
// persistent key-value map.
//
// Oracle: a plain Go map. After every committed batch
//   (1) Get(k) == model[k] for every key of the universe (absent => nil),
//   (2) root == root of a FRESH trie on a FRESH store that receives the model's pairs in one
//       sorted batch (history independence), and also == root of a fresh trie fed the same
//       pairs split into several committed batches in a drawn order,
//   (3) a fresh Trie instance opened on the stored data at that root answers the same,
//   (4) every previously committed root is still readable with its own contents,
//   (5) deleting absent keys alone leaves the root unchanged; empty map <=> nil root.
// The trie is driven exactly as state/statedb drives it: one Update(sorted keys, values)
// followed by StageUpdates(bulk) + bulk.Flush() per batch; values are 32 bytes; deletion is
// the value DefaultLeaf.

import (
	"bytes"
	"encoding/hex"
	"fmt"
	"os"
	"sort"
	"strings"
	"testing"

	"github.com/aergoio/aergo-lib/db"
	"github.com/aergoio/aergo/v2/internal/common"
	"github.com/aergoio/aergo/v2/verifx/ev"
	"pgregory.net/rapid"
)

var c10dbSeq int

func c10NewStore() db.DB {
	c10dbSeq++
	return db.NewDB(db.MemoryImpl, fmt.Sprintf("%s/c10db-%d-%d", os.TempDir(), os.Getpid(), c10dbSeq))
}

// commitAsNode applies one batch the way statedb does and commits it.
func c10Apply(tr *Trie, store db.DB, keys, vals [][]byte) ([]byte, error) {
	root, err := tr.Update(keys, vals)
	if err != nil {
		return nil, err
	}
	bulk := store.NewBulk()
	tr.StageUpdates(bulk)
	bulk.Flush()
	return root, nil
}

type c10kv struct {
	k, v []byte // v == nil means delete
}

func c10Sorted(b []c10kv) ([][]byte, [][]byte) {
	sort.Slice(b, func(i, j int) bool { return bytes.Compare(b[i].k, b[j].k) < 0 })
	ks := make([][]byte, len(b))
	vs := make([][]byte, len(b))
	for i, e := range b {
		ks[i] = append([]byte{}, e.k...)
		if e.v == nil {
			vs[i] = DefaultLeaf
		} else {
			vs[i] = append([]byte{}, e.v...)
		}
	}
	return ks, vs
}

// freshRoot computes the root of a brand-new trie holding exactly the pairs of model,
// inserted in `parts` committed batches (parts==1: one batch); order gives the assignment
// of keys to batches.
func c10FreshRoot(model map[string][]byte, assign func(i int) int, parts int) ([]byte, error) {
	store := c10NewStore()
	tr := NewTrie(nil, common.Hasher, store)
	keys := make([]string, 0, len(model))
	for k := range model {
		keys = append(keys, k)
	}
	sort.Strings(keys)
	batches := make([][]c10kv, parts)
	for i, k := range keys {
		p := 0
		if assign != nil {
			p = assign(i) % parts
		}
		batches[p] = append(batches[p], c10kv{[]byte(k), model[k]})
	}
	var root []byte
	for _, b := range batches {
		if len(b) == 0 {
			continue
		}
		ks, vs := c10Sorted(b)
		r, err := c10Apply(tr, store, ks, vs)
		if err != nil {
			return nil, err
		}
		root = r
	}
	return root, nil
}

func c10CommonPrefixBits(a, b []byte) int {
	for i := 0; i < len(a)*8; i++ {
		if bitIsSet(a, i) != bitIsSet(b, i) {
			return i
		}
	}
	return len(a) * 8
}

// universe of keys colliding on long prefixes: every key is base with bit p flipped and a
// tail variation, p drawn from depths around the 4-level batch boundaries.
func c10Universe(t *rapid.T) [][]byte {
	base := rapid.SliceOfN(rapid.Byte(), 32, 32).Draw(t, "base")
	if rapid.IntRange(0, 3).Draw(t, "zeroFirstByte") == 0 {
		base[0] = 0x00 // keys whose first byte is the byte that also stands for "empty subtree"
	}
	depths := []int{0, 1, 2, 3, 4, 5, 7, 8, 9, 11, 12, 13, 15, 16, 17, 31, 32, 33, 63, 64, 127, 128, 200, 247, 248, 249, 251, 252, 253, 254, 255}
	n := rapid.IntRange(3, 14).Draw(t, "nkeys")
	seen := map[string]bool{}
	var out [][]byte
	for len(out) < n {
		k := append([]byte{}, base...)
		mode := rapid.IntRange(0, 9).Draw(t, "kmode")
		if mode == 0 {
			k = rapid.SliceOfN(rapid.Byte(), 32, 32).Draw(t, "rndkey")
		} else {
			p := rapid.SampledFrom(depths).Draw(t, "depth")
			k[p/8] ^= 1 << uint(7-p%8)
			// vary the tail below p with a small drawn pattern so that several keys share p
			if p < 255 {
				q := rapid.IntRange(p+1, 255).Draw(t, "tailbit")
				if rapid.Bool().Draw(t, "fliptail") {
					k[q/8] ^= 1 << uint(7-q%8)
				}
			}
		}
		if !seen[string(k)] {
			seen[string(k)] = true
			out = append(out, k)
		}
	}
	sort.Slice(out, func(i, j int) bool { return bytes.Compare(out[i], out[j]) < 0 })
	return out
}

func c10Val(t *rapid.T, label string) []byte {
	// small value alphabet so that overwrites with the same value occur
	b := rapid.IntRange(1, 5).Draw(t, label)
	v := bytes.Repeat([]byte{byte(b)}, 32)
	return v
}

func c10CheckReads(tr *Trie, universe [][]byte, model map[string][]byte, what string) error {
	for _, k := range universe {
		got, err := tr.Get(k)
		if err != nil {
			return fmt.Errorf("%s: Get(%x): %v", what, k, err)
		}
		want := model[string(k)]
		if !bytes.Equal(got, want) {
			return fmt.Errorf("%s: Get(%x) = %x, model has %x", what, k, got, want)
		}
	}
	return nil
}

func c10Copy(m map[string][]byte) map[string][]byte {
	c := make(map[string][]byte, len(m))
	for k, v := range m {
		c[k] = v
	}
	return c
}

type c10hist struct {
	root  []byte
	model map[string][]byte
}

func TestC10TrieModel(t *testing.T) {
	rec := ev.New("C10", "trie-model-random")
	defer rec.Flush()
	rapid.Check(t, func(t *rapid.T) {
		universe := c10Universe(t)
		store := c10NewStore()
		tr := NewTrie(nil, common.Hasher, store)
		model := map[string][]byte{}
		var hist []c10hist
		var desc []string
		classes := map[string]bool{}
		nontrivial := false
		nb := rapid.IntRange(1, 7).Draw(t, "nbatches")
		for bi := 0; bi < nb; bi++ {
			// draw a batch: subset of the universe, each set or deleted
			var batch []c10kv
			var bdesc []string
			for ki, k := range universe {
				op := rapid.IntRange(0, 5).Draw(t, fmt.Sprintf("op%d", ki))
				switch {
				case op <= 2: // untouched
				case op == 3 || op == 4:
					v := c10Val(t, "val")
					batch = append(batch, c10kv{k, v})
					bdesc = append(bdesc, fmt.Sprintf("%d=%d", ki, v[0]))
				default:
					batch = append(batch, c10kv{k, nil})
					bdesc = append(bdesc, fmt.Sprintf("%d=del", ki))
				}
			}
			if len(batch) == 0 {
				k := rapid.SampledFrom(universe).Draw(t, "forcedkey")
				batch = append(batch, c10kv{k, c10Val(t, "fval")})
				bdesc = append(bdesc, "forced")
			}
			desc = append(desc, strings.Join(bdesc, " "))
			// classification before applying
			survivors := c10Copy(model)
			onlyAbsentDeletes := true
			for _, e := range batch {
				if e.v == nil {
					delete(survivors, string(e.k))
				} else {
					survivors[string(e.k)] = e.v
				}
				if e.v != nil || model[string(e.k)] != nil {
					onlyAbsentDeletes = false
				}
			}
			for _, e := range batch {
				if e.v == nil {
					if model[string(e.k)] == nil {
						classes["delete-absent"] = true
					} else {
						classes["delete-present"] = true
						for s := range survivors {
							cp := c10CommonPrefixBits(e.k, []byte(s))
							if cp >= 4 {
								classes["delete-adjacent>=4bits"] = true
								nontrivial = true
							}
							if cp >= 4 && cp%4 == 3 || cp%4 == 0 && cp > 0 {
								classes["delete-at-batch-boundary"] = true
							}
						}
					}
				} else if model[string(e.k)] != nil {
					classes["overwrite"] = true
				} else {
					classes["insert"] = true
				}
			}
			prevRoot := append([]byte{}, tr.Root...)
			ks, vs := c10Sorted(batch)
			root, err := c10Apply(tr, store, ks, vs)
			if err != nil {
				t.Fatalf("batch %d: update error: %v", bi, err)
			}
			model = survivors
			if onlyAbsentDeletes {
				classes["batch-only-absent-deletes"] = true
				if !bytes.Equal(prevRoot, root) {
					t.Fatalf("batch %d deletes only absent keys but root changed %x -> %x", bi, prevRoot, root)
				}
			}
			// (1) reads
			if err := c10CheckReads(tr, universe, model, fmt.Sprintf("after batch %d", bi)); err != nil {
				t.Fatal(err)
			}
			// (5) empty <=> nil root
			if (len(model) == 0) != (len(root) == 0) {
				t.Fatalf("batch %d: model has %d keys but root is %x", bi, len(model), root)
			}
			if len(model) == 0 {
				classes["emptied"] = true
			}
			// (2) history independence
			fr, err := c10FreshRoot(model, nil, 1)
			if err != nil {
				t.Fatalf("fresh trie: %v", err)
			}
			if !bytes.Equal(fr, root) {
				t.Fatalf("batch %d: root %x differs from root %x of a fresh trie with the same %d pairs (history dependence)", bi, root, fr, len(model))
			}
			if len(model) >= 2 && rapid.Bool().Draw(t, "splitcheck") {
				parts := rapid.IntRange(2, 3).Draw(t, "parts")
				perm := rapid.SliceOfN(rapid.IntRange(0, parts-1), len(model), len(model)).Draw(t, "assign")
				fr2, err := c10FreshRoot(model, func(i int) int { return perm[i] }, parts)
				if err != nil {
					t.Fatalf("fresh split trie: %v", err)
				}
				if !bytes.Equal(fr2, root) {
					t.Fatalf("batch %d: root %x differs from root %x of a fresh trie fed the same pairs in %d batches", bi, root, fr2, parts)
				}
				classes["split-rebuild"] = true
			}
			// (3) reopen on the stored data
			if len(root) != 0 {
				re := NewTrie(root, common.Hasher, store)
				if err := c10CheckReads(re, universe, model, fmt.Sprintf("reopened after batch %d", bi)); err != nil {
					t.Fatal(err)
				}
				if rapid.IntRange(0, 3).Draw(t, "continueOnReopened") == 0 {
					// carry on with the reopened instance, as a restarted node does
					tr = re
					classes["restart"] = true
				}
			}
			hist = append(hist, c10hist{append([]byte{}, root...), c10Copy(model)})
			// (4) all historical roots
			for hi, h := range hist {
				if len(h.root) == 0 {
					continue
				}
				old := NewTrie(h.root, common.Hasher, store)
				if err := c10CheckReads(old, universe, h.model, fmt.Sprintf("historical root #%d read after batch %d", hi, bi)); err != nil {
					t.Fatal(err)
				}
			}
		}
		cl := make([]string, 0, len(classes))
		for c := range classes {
			cl = append(cl, c)
		}
		sort.Strings(cl)
		var ukeys []string
		for _, k := range universe {
			ukeys = append(ukeys, hex.EncodeToString(k))
		}
		canon := strings.Join(ukeys, ",") + "|" + strings.Join(desc, ";")
		rec.Case(strings.Join(cl, ","), canon, nontrivial, func() interface{} {
			return map[string]interface{}{"universe_keys": ukeys, "batches(keyIndex=valueByte|del)": desc}
		})
	})
}

// TestC10Exhaustive enumerates ALL sequences of `depth` batches over a 4-key universe where
// each key is, per batch, untouched / set to v1 / set to v2 / deleted, for several universes
// whose keys collide at different depths.
func TestC10Exhaustive(t *testing.T) {
	rec := ev.New("C10", "trie-model-exhaustive")
	defer rec.Flush()
	depth := ev.IntEnv("VERIF_C10_DEPTH", 2)
	nsh := ev.IntEnv("VERIF_NSHARDS", 1)
	shard := ev.IntEnv("VERIF_SHARD_IDX", 0)
	mk := func(bits ...int) []byte {
		k := bytes.Repeat([]byte{0x5a}, 32)
		for _, b := range bits {
			k[b/8] ^= 1 << uint(7-b%8)
		}
		return k
	}
	universes := [][][]byte{
		{mk(), mk(255), mk(254), mk(252)},      // deepest collisions (leaf level, last batch)
		{mk(), mk(3), mk(4), mk(3, 200)},       // first batch boundary
		{mk(), mk(7), mk(8), mk(8, 9)},         // second batch boundary
		{mk(), mk(0), mk(128), mk(128, 255)},   // root split + mid
		{mk(), mk(251), mk(247), mk(247, 251)}, // last two batches
	}
	v1 := bytes.Repeat([]byte{1}, 32)
	v2 := bytes.Repeat([]byte{2}, 32)
	alpha := ev.IntEnv("VERIF_C10_ALPHA", 3) // 3: {skip,v1,del}; 4: {skip,v1,v2,del}
	nb := 1
	for i := 0; i < 4; i++ {
		nb *= alpha
	}
	total := 1
	for i := 0; i < depth; i++ {
		total *= nb
	}
	count := 0
	for ui, uni := range universes {
		sort.Slice(uni, func(i, j int) bool { return bytes.Compare(uni[i], uni[j]) < 0 })
		for seq := 0; seq < total; seq++ {
			if seq%nsh != shard {
				continue
			}
			store := c10NewStore()
			tr := NewTrie(nil, common.Hasher, store)
			model := map[string][]byte{}
			x := seq
			nontrivial := false
			skip := false
			var roots []c10hist
			for d := 0; d < depth && !skip; d++ {
				code := x % nb
				x /= nb
				var batch []c10kv
				cc := code
				for ki := 0; ki < 4; ki++ {
					sym := cc % alpha
					cc /= alpha
					if alpha == 3 && sym == 2 {
						sym = 3
					}
					switch sym {
					case 1:
						batch = append(batch, c10kv{uni[ki], v1})
					case 2:
						batch = append(batch, c10kv{uni[ki], v2})
					case 3:
						if model[string(uni[ki])] != nil && len(model) > 1 {
							nontrivial = true
						}
						batch = append(batch, c10kv{uni[ki], nil})
					}
				}
				if len(batch) == 0 {
					skip = true // an empty batch is never issued by the node (updateTrie returns early)
					break
				}
				for _, e := range batch {
					if e.v == nil {
						delete(model, string(e.k))
					} else {
						model[string(e.k)] = e.v
					}
				}
				ks, vs := c10Sorted(batch)
				root, err := c10Apply(tr, store, ks, vs)
				if err != nil {
					t.Fatalf("universe %d seq %d: %v", ui, seq, err)
				}
				if err := c10CheckReads(tr, uni, model, "exhaustive"); err != nil {
					rec.WriteReplay(fmt.Sprintf("exh-u%d-seq%d", ui, seq), map[string]interface{}{"universe": ui, "seq": seq, "depth": depth, "error": err.Error()})
					t.Fatalf("universe %d seq %d batch %d: %v", ui, seq, d, err)
				}
				fr, err := c10FreshRoot(model, nil, 1)
				if err != nil || !bytes.Equal(fr, root) {
					rec.WriteReplay(fmt.Sprintf("exh-u%d-seq%d", ui, seq), map[string]interface{}{"universe": ui, "seq": seq, "depth": depth, "error": "history dependence"})
					t.Fatalf("universe %d seq %d batch %d: root %x != fresh root %x (err %v)", ui, seq, d, root, fr, err)
				}
				roots = append(roots, c10hist{append([]byte{}, root...), c10Copy(model)})
			}
			if skip {
				continue
			}
			for hi, h := range roots {
				if len(h.root) == 0 {
					continue
				}
				old := NewTrie(h.root, common.Hasher, store)
				if err := c10CheckReads(old, uni, h.model, fmt.Sprintf("historical root %d", hi)); err != nil {
					rec.WriteReplay(fmt.Sprintf("exh-u%d-seq%d", ui, seq), map[string]interface{}{"universe": ui, "seq": seq, "depth": depth, "error": err.Error()})
					t.Fatalf("universe %d seq %d: %v", ui, seq, err)
				}
			}
			count++
			rec.Case(fmt.Sprintf("universe%d", ui), fmt.Sprintf("%d/%d/%d/%d", ui, alpha, depth, seq), nontrivial, func() interface{} {
				return map[string]interface{}{"universe": ui, "depth": depth, "alphabet": alpha, "sequence_code(base alpha^4 per batch, one base-alpha digit per key: 0 skip 1 v1 [2 v2] last=del)": seq}
			})
		}
	}
	rec.Note("exhaustive_depth", depth)
	rec.Note("alphabet", alpha)
	rec.Note("sequences_per_universe", total)
	rec.SetExhaustive(true)
	t.Logf("C10 exhaustive: %d sequences", count)
}

// TestC10Regression replays, without any generator, the minimal history that exposed the
// defect repaired by the "fix: trie update corrupts the key batch ..." commit: one key, then a
// batch that deletes it and inserts keys on both sides of it.
func TestC10Regression(t *testing.T) {
	rec := ev.New("C10", "regression")
	defer rec.Flush()
	mk := func(b byte) []byte { k := bytes.Repeat([]byte{0x5a}, 32); k[31] = b; return k }
	v := bytes.Repeat([]byte{1}, 32)
	for _, tc := range [][3]byte{{1, 2, 3}, {0x10, 0x80, 0xf0}, {0, 1, 0xff}} {
		store := c10NewStore()
		tr := NewTrie(nil, common.Hasher, store)
		if _, err := c10Apply(tr, store, [][]byte{mk(tc[1])}, [][]byte{v}); err != nil {
			t.Fatal(err)
		}
		root, err := c10Apply(tr, store, [][]byte{mk(tc[0]), mk(tc[1]), mk(tc[2])}, [][]byte{v, DefaultLeaf, v})
		if err != nil {
			t.Fatalf("update: %v", err)
		}
		model := map[string][]byte{string(mk(tc[0])): v, string(mk(tc[2])): v}
		fr, _ := c10FreshRoot(model, nil, 1)
		if !bytes.Equal(fr, root) {
			t.Fatalf("delete-in-the-middle batch %v: root %x, fresh trie with the same pairs has %x", tc, root, fr)
		}
		rec.Case("regression", fmt.Sprint(tc), true, func() interface{} {
			return fmt.Sprintf("insert k%d; then batch {k%d=v, k%d=del, k%d=v}", tc[1], tc[0], tc[1], tc[2])
		})
	}
}
