//go:build verif

package trie

// C11 — Merkle proofs are complete and sound.
//
// Completeness: for every root reachable by the C10 histories (current and historical) and
// every key (present / absent under an empty subtree / absent under a foreign leaf) the proof
// produced by MerkleProof[Compressed][R] says what the model says and is accepted by the
// repository verifier AND by an independent verifier written from the tree's definition
// (leaf = H(key,value,height), interior = H(l,r), default = {0}).
// Soundness: the verifier is then attacked with every single-field corruption and transplant
// of the honest proofs. Oracle: whatever the verifier ACCEPTS must be true in the model —
// an accepted inclusion claim (k,v) needs model[k]==v, an accepted non-inclusion claim for k
// needs k absent.

import (
	"bytes"
	"fmt"
	"sort"
	"strings"
	"testing"

	"github.com/aergoio/aergo/v2/internal/common"
	"github.com/aergoio/aergo/v2/verifx/ev"
	"pgregory.net/rapid"
)

// independent root recomputation (not using any function of the trie package)
func c11Fold(key, leaf []byte, ap [][]byte) []byte {
	h := leaf
	n := len(ap)
	for j := 0; j < n; j++ {
		d := n - 1 - j
		bit := key[d/8]&(1<<uint(7-d%8)) != 0
		if bit {
			h = common.Hasher(ap[j], h)
		} else {
			h = common.Hasher(h, ap[j])
		}
	}
	return h
}

func c11IndepInclusion(root, key, value []byte, ap [][]byte) bool {
	if len(ap) > 256 {
		return false
	}
	leaf := common.Hasher(key, value, []byte{byte(256 - len(ap))})
	return bytes.Equal(root, c11Fold(key, leaf, ap))
}

func c11IndepNonInclusion(root, key []byte, ap [][]byte, proofKey, proofVal []byte) bool {
	if len(ap) > 256 {
		return false
	}
	if len(proofKey) == 0 {
		return bytes.Equal(root, c11Fold(key, []byte{0}, ap))
	}
	if bytes.Equal(proofKey, key) {
		return false
	}
	if !c11IndepInclusion(root, proofKey, proofVal, ap) {
		return false
	}
	for b := 0; b < len(ap); b++ {
		if (key[b/8]&(1<<uint(7-b%8)) != 0) != (proofKey[b/8]&(1<<uint(7-b%8)) != 0) {
			return false
		}
	}
	return true
}

func c11Expand(bitmap []byte, ap [][]byte, length int) ([][]byte, bool) {
	// decompress a compressed audit path into the plain form
	out := make([][]byte, length)
	j := 0
	for i := 0; i < length; i++ {
		if i/8 < len(bitmap) && bitmap[i/8]&(1<<uint(7-i%8)) != 0 {
			if j >= len(ap) {
				return nil, false
			}
			out[i] = ap[j]
			j++
		} else {
			out[i] = []byte{0}
		}
	}
	return out, j == len(ap)
}

type c11claim struct {
	kind     string // "incl" or "nonincl"
	key      []byte
	value    []byte // incl: value; nonincl: proofVal
	proofKey []byte
	ap       [][]byte
	// compressed form (if comp)
	comp   bool
	bitmap []byte
	length int
	what   string
}

// c11Accepts runs the repository verifier for the claim against root.
func c11Accepts(root []byte, c c11claim) (acc bool, panicked interface{}) {
	defer func() {
		if r := recover(); r != nil {
			panicked = r
		}
	}()
	v := NewTrie(root, common.Hasher, nil)
	if c.kind == "incl" {
		if c.comp {
			return v.VerifyInclusionC(c.bitmap, c.key, c.value, c.ap, c.length), nil
		}
		return v.VerifyInclusion(c.ap, c.key, c.value), nil
	}
	if c.comp {
		return v.VerifyNonInclusionC(c.ap, c.length, c.bitmap, c.key, c.value, c.proofKey), nil
	}
	return v.VerifyNonInclusion(c.ap, c.key, c.value, c.proofKey), nil
}

func c11Clone(ap [][]byte) [][]byte {
	o := make([][]byte, len(ap))
	for i := range ap {
		o[i] = append([]byte{}, ap[i]...)
	}
	return o
}

func c11Flip(b []byte, bit int) []byte {
	o := append([]byte{}, b...)
	if len(o) == 0 {
		return []byte{1}
	}
	bit %= len(o) * 8
	o[bit/8] ^= 1 << uint(7-bit%8)
	return o
}

func TestC11Proofs(t *testing.T) {
	rec := ev.New("C11", "trie-proofs")
	defer rec.Flush()
	rapid.Check(t, func(t *rapid.T) {
		universe := c10Universe(t)
		store := c10NewStore()
		tr := NewTrie(nil, common.Hasher, store)
		model := map[string][]byte{}
		var hist []c10hist
		nb := rapid.IntRange(1, 4).Draw(t, "nbatches")
		for bi := 0; bi < nb; bi++ {
			var batch []c10kv
			for ki, k := range universe {
				op := rapid.IntRange(0, 5).Draw(t, fmt.Sprintf("op%d", ki))
				switch {
				case op <= 1:
				case op <= 4:
					batch = append(batch, c10kv{k, c10Val(t, "val")})
				default:
					batch = append(batch, c10kv{k, nil})
				}
			}
			if len(batch) == 0 {
				batch = append(batch, c10kv{universe[0], c10Val(t, "fval")})
			}
			for _, e := range batch {
				if e.v == nil {
					delete(model, string(e.k))
				} else {
					model[string(e.k)] = e.v
				}
			}
			ks, vs := c10Sorted(batch)
			root, err := c10Apply(tr, store, ks, vs)
			if err != nil {
				t.Fatalf("update: %v", err)
			}
			hist = append(hist, c10hist{append([]byte{}, root...), c10Copy(model)})
		}
		// pick a root: the current one or a historical one
		hi := rapid.IntRange(0, len(hist)-1).Draw(t, "rootIndex")
		h := hist[hi]
		historical := hi != len(hist)-1
		if len(h.root) == 0 {
			// the empty trie (every key deleted again; a contract without storage): the absence of any key must be
			// provable, in both encodings, and nothing can be proved present
			empty := NewTrie(nil, common.Hasher, store)
			for _, q := range universe {
				ap, incl, pk, pv, err := empty.MerkleProof(q)
				if err != nil || incl {
					t.Fatalf("proof for key %x in the empty trie: included=%v err=%v", q, incl, err)
				}
				if acc, p := c11Accepts(nil, c11claim{kind: "nonincl", key: q, value: pv, proofKey: pk, ap: ap}); p != nil || !acc {
					t.Fatalf("the honest proof of absence of key %x in the EMPTY trie (%d audit nodes) is rejected by the repository verifier (panic=%v)", q, len(ap), p)
				}
				bitmap, apc, length, incl, pk, pv, err := empty.MerkleProofCompressed(q)
				if err != nil || incl {
					t.Fatalf("compressed proof for key %x in the empty trie: included=%v err=%v", q, incl, err)
				}
				if acc, p := c11Accepts(nil, c11claim{kind: "nonincl", key: q, value: pv, proofKey: pk, ap: apc, comp: true, bitmap: bitmap, length: length}); p != nil || !acc {
					t.Fatalf("the honest compressed proof of absence of key %x in the EMPTY trie is rejected by the repository verifier (panic=%v)", q, p)
				}
				if acc, _ := c11Accepts(nil, c11claim{kind: "incl", key: q, value: c10Val(t, "emptyVal")}); acc {
					t.Fatalf("an inclusion claim was accepted against the empty trie")
				}
			}
			rec.Case("empty-root", fmt.Sprintf("%x", universe[0]), false, nil)
			return
		}
		// query keys: universe + a few absent keys (random, and near-misses of present keys)
		queries := append([][]byte{}, universe...)
		for i := 0; i < 3; i++ {
			queries = append(queries, rapid.SliceOfN(rapid.Byte(), 32, 32).Draw(t, "absentKey"))
		}
		for k := range h.model {
			fb := rapid.IntRange(0, 255).Draw(t, "nearMissBit")
			queries = append(queries, c11Flip([]byte(k), fb))
			break
		}
		classes := map[string]bool{}
		nontrivial := false
		var honest []c11claim
		present := func(k []byte) bool { return h.model[string(k)] != nil }
		for _, q := range queries {
			for _, comp := range []bool{false, true} {
				var ap [][]byte
				var bitmap []byte
				var length int
				var incl bool
				var pk, pv []byte
				var err error
				reader := tr
				if rapid.Bool().Draw(t, "freshReader") {
					reader = NewTrie(tr.Root, common.Hasher, store)
				}
				if historical || rapid.Bool().Draw(t, "useR") {
					if comp {
						bitmap, ap, length, incl, pk, pv, err = reader.MerkleProofCompressedR(q, h.root)
					} else {
						ap, incl, pk, pv, err = reader.MerkleProofR(q, h.root)
					}
				} else {
					if comp {
						bitmap, ap, length, incl, pk, pv, err = reader.MerkleProofCompressed(q)
					} else {
						ap, incl, pk, pv, err = reader.MerkleProof(q)
					}
				}
				if err != nil {
					t.Fatalf("proof generation for %x at root %x failed: %v", q, h.root, err)
				}
				if !comp {
					length = len(ap)
				}
				// completeness: the proof says what the model says
				if incl != present(q) {
					t.Fatalf("proof for key %x says included=%v but model says %v", q, incl, present(q))
				}
				var c c11claim
				if incl {
					if !bytes.Equal(pv, h.model[string(q)]) {
						t.Fatalf("inclusion proof for %x carries value %x, model has %x", q, pv, h.model[string(q)])
					}
					c = c11claim{kind: "incl", key: q, value: pv, ap: ap, comp: comp, bitmap: bitmap, length: length, what: "honest"}
					classes["incl"] = true
				} else {
					if len(pk) != 0 {
						if !bytes.Equal(h.model[string(pk)], pv) {
							t.Fatalf("non-inclusion proof for %x uses foreign leaf %x=%x that the model does not hold (%x)", q, pk, pv, h.model[string(pk)])
						}
						classes["nonincl-foreign-leaf"] = true
						nontrivial = true
					} else {
						classes["nonincl-empty-subtree"] = true
					}
					c = c11claim{kind: "nonincl", key: q, value: pv, proofKey: pk, ap: ap, comp: comp, bitmap: bitmap, length: length, what: "honest"}
				}
				acc, p := c11Accepts(h.root, c)
				if p != nil || !acc {
					t.Fatalf("honest %s proof (compressed=%v) for key %x at root %x rejected by the repository verifier (panic=%v)", c.kind, comp, q, h.root, p)
				}
				// independent verifier
				plain := ap
				if comp {
					var ok bool
					plain, ok = c11Expand(bitmap, ap, length)
					if !ok {
						t.Fatalf("compressed proof for %x has inconsistent bitmap", q)
					}
				}
				if incl {
					if !c11IndepInclusion(h.root, q, pv, plain) {
						t.Fatalf("honest inclusion proof for %x rejected by the independent verifier", q)
					}
				} else if !c11IndepNonInclusion(h.root, q, plain, pk, pv) {
					t.Fatalf("honest non-inclusion proof for %x rejected by the independent verifier", q)
				}
				nd := 0
				for _, n := range plain {
					if !bytes.Equal(n, DefaultLeaf) {
						nd++
					}
				}
				if nd >= 1 && length%4 != 0 {
					classes["nondefault-audit-node,height-not-multiple-of-4"] = true
					nontrivial = true
				}
				if len(honest) < 24 {
					honest = append(honest, c)
				}
			}
		}
		if historical {
			classes["historical-root"] = true
		}
		// ---- soundness: corrupt / transplant the honest proofs --------------------------
		truth := func(c c11claim) bool {
			if c.kind == "incl" {
				return bytes.Equal(h.model[string(c.key)], c.value) && len(c.value) > 0
			}
			return !present(c.key)
		}
		attack := func(c c11claim) {
			acc, p := c11Accepts(h.root, c)
			rec.Label("attack:" + strings.SplitN(c.what, " ", 2)[0])
			if p != nil {
				// The property states which claims may be ACCEPTED; it does not promise that the
				// verifier is total on malformed input (e.g. an audit path longer than the key).
				// A panic is therefore a refusal, counted but not a violation.
				rec.Label("verifier-panic-on-malformed-proof(counted as refusal)")
				return
			}
			if acc && !truth(c) {
				if c.kind == "nonincl" && bytes.Equal(c.proofKey, c.key) && rec.IsKnown("nonincl-proofkey-equals-key") {
					rec.Excluded("nonincl-proofkey-equals-key")
					return
				}
				t.Fatalf("verifier ACCEPTED a false %s claim for key %x (value/proofVal %x, proofKey %x, len(ap)=%d, compressed=%v) at root %x: %s",
					c.kind, c.key, c.value, c.proofKey, len(c.ap), c.comp, h.root, c.what)
			}
		}
		var presentKeys [][]byte
		for k := range h.model {
			presentKeys = append(presentKeys, []byte(k))
		}
		sort.Slice(presentKeys, func(i, j int) bool { return bytes.Compare(presentKeys[i], presentKeys[j]) < 0 })
		for _, c := range honest {
			// value corrupted
			m := c
			m.value = c11Flip(c.value, rapid.IntRange(0, 255).Draw(t, "vbit"))
			m.what = "value-bitflip"
			if len(c.value) > 0 {
				attack(m)
			}
			// key replaced by another query key / flipped bit
			m = c
			m.key = c11Flip(c.key, rapid.IntRange(0, 255).Draw(t, "kbit"))
			m.what = "key-bitflip"
			attack(m)
			for _, other := range queries {
				if !bytes.Equal(other, c.key) {
					m = c
					m.key = other
					m.what = "key-transplant"
					attack(m)
				}
			}
			// one audit node corrupted / dropped / duplicated
			if len(c.ap) > 0 {
				i := rapid.IntRange(0, len(c.ap)-1).Draw(t, "apIdx")
				m = c
				m.ap = c11Clone(c.ap)
				m.ap[i] = c11Flip(m.ap[i], rapid.IntRange(0, 255).Draw(t, "apbit"))
				m.what = "audit-node-bitflip"
				attack(m)
				m = c
				m.ap = append(c11Clone(c.ap[:i]), c11Clone(c.ap[i+1:])...)
				m.what = "audit-node-dropped"
				if !c.comp {
					attack(m)
				}
				m = c
				m.ap = append(c11Clone(c.ap), c11Clone(c.ap[len(c.ap)-1:])...)
				m.what = "audit-node-appended"
				if !c.comp {
					attack(m)
				}
			}
			if c.comp {
				// bitmap bit flipped (keeping ap length consistent is the attacker's problem; the
				// verifier must not panic and must not accept a false claim)
				if c.length > 0 {
					m = c
					m.bitmap = c11Flip(c.bitmap, rapid.IntRange(0, c.length-1).Draw(t, "bmbit"))
					m.what = "bitmap-bitflip"
					func() {
						defer func() { recover() }() // index panics on inconsistent bitmaps are not claims
						acc, _ := c11Accepts(h.root, m)
						if acc && !truth(m) {
							t.Fatalf("verifier accepted a false claim after bitmap corruption for key %x", m.key)
						}
					}()
					rec.Label("attack:bitmap-bitflip")
				}
				for _, d := range []int{-1, 1} {
					m = c
					m.length = c.length + d
					if m.length < 0 || m.length/8 >= len(m.bitmap) {
						continue
					}
					m.what = "height-off-by-one"
					func() {
						defer func() { recover() }()
						acc, _ := c11Accepts(h.root, m)
						if acc && !truth(m) {
							t.Fatalf("verifier accepted a false claim with height %+d for key %x", d, m.key)
						}
					}()
					rec.Label("attack:height-off-by-one")
				}
			}
			// an audit path element that is not a 32-byte hash: the preimage of the present key's own leaf, cut so that
			// "empty subtree || element" (or "element || empty subtree") spells exactly that preimage
			if c.kind == "incl" && !c.comp {
				depth := len(c.ap)
				if depth < 256 && c.key[0] == 0x00 && c.key[depth/8]&(1<<uint(7-depth%8)) == 0 {
					m = c
					m.kind, m.proofKey, m.value = "nonincl", nil, nil
					el := append(append(append([]byte{}, c.key[1:]...), c.value...), byte(256-depth))
					m.ap = append([][]byte{el}, c11Clone(c.ap)...)
					m.what = "absence-of-present-key-via-leaf-preimage-as-audit-node"
					attack(m)
				}
				if depth == 0 && c.key[0]&0x80 != 0 {
					m = c
					m.kind, m.proofKey, m.value = "nonincl", nil, nil
					m.ap = [][]byte{append(append([]byte{}, c.key...), c.value...)}
					m.what = "absence-of-the-only-key-via-leaf-preimage-as-audit-node"
					attack(m)
				}
			}
			// inclusion flag flipped: use an inclusion proof as a proof of absence and vice versa
			if c.kind == "incl" {
				m = c
				m.kind = "nonincl"
				m.proofKey = nil
				m.what = "flag-flip incl->nonincl(empty)"
				attack(m)
				m = c
				m.kind = "nonincl"
				m.proofKey = c.key
				m.what = "flag-flip incl->nonincl(proofKey:=key)"
				attack(m)
				// claim absence of a present key using ANOTHER present key's leaf
				for _, pk := range presentKeys {
					if !bytes.Equal(pk, c.key) {
						m = c
						m.kind = "nonincl"
						m.key = pk
						m.proofKey = c.key
						m.what = "absence-of-present-key-via-other-leaf"
						attack(m)
					}
				}
				// inclusion with a value held by another key
				for _, pk := range presentKeys {
					if v := h.model[string(pk)]; !bytes.Equal(v, c.value) {
						m = c
						m.value = v
						m.what = "value-transplant"
						attack(m)
					}
				}
			} else {
				m = c
				m.kind = "incl"
				m.value = c10Val(t, "fakeVal")
				m.what = "flag-flip nonincl->incl"
				attack(m)
				if len(c.proofKey) != 0 {
					m = c
					m.kind = "incl"
					m.value = c.value
					m.what = "flag-flip nonincl->incl(with foreign value)"
					attack(m)
					m = c
					m.proofKey = c11Flip(c.proofKey, rapid.IntRange(0, 255).Draw(t, "pkbit"))
					m.what = "proofKey-bitflip"
					attack(m)
					m = c
					m.value = c11Flip(c.value, rapid.IntRange(0, 255).Draw(t, "pvbit"))
					m.what = "proofVal-bitflip"
					attack(m)
				}
			}
			// other root (historical) — the same proof against a different root
			for oi, o := range hist {
				if oi != hi && len(o.root) != 0 && !bytes.Equal(o.root, h.root) {
					acc, p := c11Accepts(o.root, c)
					if p != nil {
						continue
					}
					otruth := false
					if c.kind == "incl" {
						otruth = bytes.Equal(o.model[string(c.key)], c.value)
					} else {
						otruth = o.model[string(c.key)] == nil
					}
					rec.Label("attack:root-transplant")
					if acc && !otruth {
						t.Fatalf("proof generated at root #%d accepted at root #%d for a claim false there (key %x)", hi, oi, c.key)
					}
				}
			}
		}
		cl := make([]string, 0, len(classes))
		for c := range classes {
			cl = append(cl, c)
		}
		sort.Strings(cl)
		canon := fmt.Sprintf("%x|%x|%d", h.root, universe, len(honest))
		rec.Case(strings.Join(cl, ","), canon, nontrivial, func() interface{} {
			return map[string]interface{}{"root": fmt.Sprintf("%x", h.root), "keys_in_trie": len(h.model), "queries": len(queries), "honest_proofs_attacked": len(honest), "historical_root": historical}
		})
	})
}

// TestC11Regression: hand-written soundness cases (bypass the generator).
func TestC11Regression(t *testing.T) {
	rec := ev.New("C11", "regression")
	defer rec.Flush()
	store := c10NewStore()
	tr := NewTrie(nil, common.Hasher, store)
	k1 := bytes.Repeat([]byte{0x11}, 32)
	k2 := bytes.Repeat([]byte{0xee}, 32)
	v1 := bytes.Repeat([]byte{1}, 32)
	v2 := bytes.Repeat([]byte{2}, 32)
	root, err := c10Apply(tr, store, [][]byte{k1, k2}, [][]byte{v1, v2})
	if err != nil {
		t.Fatal(err)
	}
	ap, incl, _, val, err := tr.MerkleProof(k1)
	if err != nil || !incl {
		t.Fatal("no inclusion proof", err)
	}
	ver := NewTrie(root, common.Hasher, nil)
	acc := ver.VerifyNonInclusion(ap, k1, val, k1)
	bitmap, apc, length, _, _, valc, _ := tr.MerkleProofCompressed(k1)
	accC := ver.VerifyNonInclusionC(apc, length, bitmap, k1, valc, k1)
	rec.Case("regression", "proofkey-equals-key", true, func() interface{} {
		return "two-key trie; VerifyNonInclusion(ap(k1), key=k1, value=v1, proofKey=k1)"
	})
	rec.Case("regression", "proofkey-equals-key-compressed", true, func() interface{} {
		return "two-key trie; VerifyNonInclusionC(..., key=k1, value=v1, proofKey=k1)"
	})
	if acc || accC {
		if rec.IsKnown("nonincl-proofkey-equals-key") {
			rec.Excluded("nonincl-proofkey-equals-key")
			return
		}
		t.Fatalf("VerifyNonInclusion accepted a proof of ABSENCE for the PRESENT key k1 (proofKey == key): plain=%v compressed=%v", acc, accC)
	}
}
