//go:build verif

package state

import (
	"github.com/aergoio/aergo-lib/db"
	"github.com/aergoio/aergo/v2/state/statedb"
)

// VerifWrapStore replaces the key-value store of the state DB by f(store) (a journaling wrapper
// for crash-point enumeration). The state DB object is rebuilt at the same root so that every
// internal reference (trie cache, data loader) goes through the wrapper.
func (sdb *ChainStateDB) VerifWrapStore(f func(db.DB) db.DB) {
	sdb.Lock()
	defer sdb.Unlock()
	root := sdb.states.GetRoot()
	sdb.store = f(sdb.store)
	sdb.states = statedb.NewStateDB(sdb.store, root, sdb.testmode)
}

// VerifStore returns the store of the state DB.
func (sdb *ChainStateDB) VerifStore() db.DB { return sdb.store }
