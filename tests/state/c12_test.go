//go:build verif

package state

// C12 — state snapshots: reverting restores exactly the earlier visible state, for nested
// snapshots, and reverted writes influence neither the state root nor the persisted data.
//
// The machine drives a real BlockState (statedb.StateDB on a memorydb) the way the chain
// does: inside a "block" any mix of account puts, contract open/set/delete/stage (with inner
// ContractState.Snapshot/Rollback as the VM does for failed calls), BlockState.Snapshot and
// BlockState.Rollback to ANY earlier snapshot; the block ends with Update + Commit and the
// next block opens a new StateDB at the committed root.
// Oracle: (a) a model with an explicit stack of full copies — after every step every account
// and every storage key reads as in the model; (b) a REFERENCE StateDB on its own store that
// only ever receives the surviving writes of each block must end every block with the same
// root, the same full dump after reopening and byte-identical store contents.

import (
	"bytes"
	"fmt"
	"math/big"
	"os"
	"sort"
	"strings"
	"testing"

	"github.com/aergoio/aergo-lib/db"
	"github.com/aergoio/aergo/v2/state/statedb"
	"github.com/aergoio/aergo/v2/types"
	"github.com/aergoio/aergo/v2/verifx/ev"
	"pgregory.net/rapid"
)

var c12seq int

func c12Store() db.DB {
	c12seq++
	return db.NewDB(db.MemoryImpl, fmt.Sprintf("%s/c12db-%d-%d", os.TempDir(), os.Getpid(), c12seq))
}

type c12Acc struct {
	nonce   uint64
	balance uint64
}

type c12Model struct {
	acc     map[string]c12Acc            // account name -> state (absent = never put)
	storage map[string]map[string]string // contract -> key -> value (absent = none)
}

func (m *c12Model) clone() *c12Model {
	c := &c12Model{acc: map[string]c12Acc{}, storage: map[string]map[string]string{}}
	for k, v := range m.acc {
		c.acc[k] = v
	}
	for k, v := range m.storage {
		c.storage[k] = map[string]string{}
		for a, b := range v {
			c.storage[k][a] = b
		}
	}
	return c
}

func c12ID(name string) []byte {
	b := bytes.Repeat([]byte{0x02}, 33)
	copy(b[1:], name)
	return b
}

// write tracking for the reference run: last surviving write per key within the block
type c12Writes struct {
	acc     map[string]c12Acc
	storage map[string]map[string]*string // nil pointer value = delete
	order   []string
}

func newC12Writes() *c12Writes {
	return &c12Writes{acc: map[string]c12Acc{}, storage: map[string]map[string]*string{}}
}
func (w *c12Writes) clone() *c12Writes {
	c := newC12Writes()
	for k, v := range w.acc {
		c.acc[k] = v
	}
	for k, v := range w.storage {
		c.storage[k] = map[string]*string{}
		for a, b := range v {
			c.storage[k][a] = b
		}
	}
	return c
}

func c12PutAcc(sdb *statedb.StateDB, name string, a c12Acc) error {
	as, err := GetAccountState(c12ID(name), sdb)
	if err != nil {
		return err
	}
	as.SetNonce(a.nonce)
	as.newState.Balance = new(big.Int).SetUint64(a.balance).Bytes()
	return as.PutState()
}

func c12ReadAll(sdb *statedb.StateDB, accounts, contracts, keys []string, m *c12Model, what string) error {
	for _, a := range accounts {
		st, err := sdb.GetAccountState(types.ToAccountID(c12ID(a)))
		if err != nil {
			return fmt.Errorf("%s: GetAccountState(%s): %v", what, a, err)
		}
		want := m.acc[a]
		if st.Nonce != want.nonce || new(big.Int).SetBytes(st.Balance).Uint64() != want.balance {
			return fmt.Errorf("%s: account %s reads nonce=%d balance=%d, model has nonce=%d balance=%d", what, a, st.Nonce, new(big.Int).SetBytes(st.Balance).Uint64(), want.nonce, want.balance)
		}
	}
	for _, c := range contracts {
		cs, err := statedb.OpenContractStateAccount(c12ID(c), sdb)
		if err != nil {
			return fmt.Errorf("%s: open %s: %v", what, c, err)
		}
		for _, k := range keys {
			got, err := cs.GetData([]byte(k))
			if err != nil {
				return fmt.Errorf("%s: GetData(%s.%s): %v", what, c, k, err)
			}
			want, ok := m.storage[c][k]
			if ok != (got != nil) || (ok && string(got) != want) {
				return fmt.Errorf("%s: storage %s.%s reads %q (present=%v), model has %q (present=%v)", what, c, k, got, got != nil, want, ok)
			}
		}
	}
	return nil
}

func c12StoreContent(s db.DB) map[string]string {
	out := map[string]string{}
	for it := s.Iterator(nil, nil); it.Valid(); it.Next() {
		out[string(it.Key())] = string(it.Value())
	}
	return out
}

func c12DumpString(store db.DB, root []byte) (string, error) {
	d, err := statedb.VerifFullDump(store, root)
	if err != nil {
		return "", err
	}
	var ids []string
	for id := range d {
		ids = append(ids, string(id[:]))
	}
	sort.Strings(ids)
	var sb strings.Builder
	for _, id := range ids {
		var aid types.AccountID
		copy(aid[:], id)
		a := d[aid]
		fmt.Fprintf(&sb, "%x n=%d b=%x sr=%x;", id, a.State.Nonce, a.State.Balance, a.State.StorageRoot)
		var ks []string
		for k := range a.Storage {
			ks = append(ks, k)
		}
		sort.Strings(ks)
		for _, k := range ks {
			fmt.Fprintf(&sb, " %x=%q", k, a.Storage[k])
		}
		sb.WriteString("\n")
	}
	return sb.String(), nil
}

type c12Run struct {
	accounts, contracts, keys []string
	store, refStore           db.DB
	root, refRoot             []byte
	bs                        *BlockState
	model                     *c12Model
	writes                    *c12Writes
	snaps                     []BlockSnapshot
	snapModels                []*c12Model
	snapWrites                []*c12Writes
	desc                      []string
	classes                   map[string]bool
	nontrivial                bool
	stagedAfter               map[string]int // contract -> index of snapshot stack height when first staged in this block
}

func newC12Run(accounts, contracts, keys []string) *c12Run {
	r := &c12Run{accounts: accounts, contracts: contracts, keys: keys, store: c12Store(), refStore: c12Store(),
		model: &c12Model{acc: map[string]c12Acc{}, storage: map[string]map[string]string{}}, classes: map[string]bool{}}
	r.beginBlock()
	return r
}

func (r *c12Run) beginBlock() {
	r.bs = NewBlockState(statedb.NewStateDB(r.store, r.root, false))
	r.writes = newC12Writes()
	r.snaps, r.snapModels, r.snapWrites = nil, nil, nil
	r.stagedAfter = map[string]int{}
}

func (r *c12Run) putAcc(name string, a c12Acc) error {
	if err := c12PutAcc(r.bs.StateDB, name, a); err != nil {
		return err
	}
	r.model.acc[name] = a
	r.writes.acc[name] = a
	r.desc = append(r.desc, fmt.Sprintf("put(%s,%d,%d)", name, a.nonce, a.balance))
	return nil
}

type c12StorageOp struct {
	key   string
	val   string
	del   bool
	inner int // 0 none, 1 = take ContractState snapshot before this op, 2 = rollback to it after this op
}

// contractTx opens the contract, applies ops (with optional inner snapshot/rollback) and stages it.
func (r *c12Run) contractTx(c string, ops []c12StorageOp) error {
	cs, err := statedb.OpenContractStateAccount(c12ID(c), r.bs.StateDB)
	if err != nil {
		return err
	}
	if r.model.storage[c] == nil {
		r.model.storage[c] = map[string]string{}
	}
	if r.writes.storage[c] == nil {
		r.writes.storage[c] = map[string]*string{}
	}
	var innerSnap statedb.Snapshot
	var innerModel map[string]string
	var innerWrites map[string]*string
	haveInner := false
	var d []string
	for _, op := range ops {
		if op.inner == 1 && !haveInner {
			innerSnap = cs.Snapshot()
			innerModel = map[string]string{}
			for k, v := range r.model.storage[c] {
				innerModel[k] = v
			}
			innerWrites = map[string]*string{}
			for k, v := range r.writes.storage[c] {
				innerWrites[k] = v
			}
			haveInner = true
			d = append(d, "csSnap")
		}
		if op.del {
			if err := cs.DeleteData([]byte(op.key)); err != nil {
				return err
			}
			delete(r.model.storage[c], op.key)
			r.writes.storage[c][op.key] = nil
			d = append(d, "del "+op.key)
		} else {
			if err := cs.SetData([]byte(op.key), []byte(op.val)); err != nil {
				return err
			}
			r.model.storage[c][op.key] = op.val
			v := op.val
			r.writes.storage[c][op.key] = &v
			d = append(d, "set "+op.key+"="+op.val)
		}
		// read-your-writes through the handle
		got, _ := cs.GetData([]byte(op.key))
		want, ok := r.model.storage[c][op.key]
		if ok != (got != nil) || (ok && string(got) != want) {
			return fmt.Errorf("handle of %s does not read its own write of %s: got %q", c, op.key, got)
		}
		if op.inner == 2 && haveInner {
			if err := cs.Rollback(innerSnap); err != nil {
				return err
			}
			r.model.storage[c] = innerModel
			r.writes.storage[c] = innerWrites
			haveInner = false
			r.classes["contractstate-rollback"] = true
			d = append(d, "csRollback")
		}
	}
	if err := statedb.StageContractState(cs, r.bs.StateDB); err != nil {
		return err
	}
	if _, ok := r.stagedAfter[c]; !ok {
		r.stagedAfter[c] = len(r.snaps)
	}
	r.desc = append(r.desc, fmt.Sprintf("tx(%s: %s)", c, strings.Join(d, ",")))
	return nil
}

func (r *c12Run) snapshot() {
	r.snaps = append(r.snaps, r.bs.Snapshot())
	r.snapModels = append(r.snapModels, r.model.clone())
	r.snapWrites = append(r.snapWrites, r.writes.clone())
	r.desc = append(r.desc, "snapshot")
}

func (r *c12Run) rollback(i int) error {
	if err := r.bs.Rollback(r.snaps[i]); err != nil {
		return err
	}
	if i < len(r.snaps)-1 {
		r.classes["nested-rollback"] = true
		r.nontrivial = true
	}
	for c, h := range r.stagedAfter {
		if h > i {
			r.classes["rollback-undoes-contract-staged-after-snapshot"] = true
			r.nontrivial = true
			delete(r.stagedAfter, c)
		}
	}
	r.model = r.snapModels[i].clone()
	r.writes = r.snapWrites[i].clone()
	r.snaps, r.snapModels, r.snapWrites = r.snaps[:i+1], r.snapModels[:i+1], r.snapWrites[:i+1]
	r.desc = append(r.desc, fmt.Sprintf("rollback(%d)", i))
	r.classes["rollback"] = true
	return nil
}

func (r *c12Run) check(what string) error {
	return c12ReadAll(r.bs.StateDB, r.accounts, r.contracts, r.keys, r.model, what)
}

// endBlock: Update + Commit on the real state; apply only surviving writes on the reference.
func (r *c12Run) endBlock() error {
	if err := r.bs.Update(); err != nil {
		return fmt.Errorf("Update: %v", err)
	}
	if err := r.check("after Update"); err != nil {
		return err
	}
	if err := r.bs.Commit(); err != nil {
		return fmt.Errorf("Commit: %v", err)
	}
	r.root = append([]byte{}, r.bs.GetRoot()...)
	// reference
	ref := statedb.NewStateDB(r.refStore, r.refRoot, false)
	var an []string
	for a := range r.writes.acc {
		an = append(an, a)
	}
	sort.Strings(an)
	var cn []string
	for c := range r.writes.storage {
		cn = append(cn, c)
	}
	sort.Strings(cn)
	for _, c := range cn {
		w := r.writes.storage[c]
		if len(w) == 0 {
			continue
		}
		cs, err := statedb.OpenContractStateAccount(c12ID(c), ref)
		if err != nil {
			return err
		}
		var ks []string
		for k := range w {
			ks = append(ks, k)
		}
		sort.Strings(ks)
		for _, k := range ks {
			if w[k] == nil {
				cs.DeleteData([]byte(k))
			} else {
				cs.SetData([]byte(k), []byte(*w[k]))
			}
		}
		statedb.StageContractState(cs, ref)
	}
	for _, a := range an {
		if err := c12PutAcc(ref, a, r.writes.acc[a]); err != nil {
			return err
		}
	}
	if err := ref.Update(); err != nil {
		return err
	}
	if err := ref.Commit(); err != nil {
		return err
	}
	r.refRoot = append([]byte{}, ref.GetRoot()...)
	if !bytes.Equal(r.root, r.refRoot) {
		return fmt.Errorf("state root %x after commit differs from root %x of a state that only received the surviving writes (reverted writes leaked into the root)", r.root, r.refRoot)
	}
	// reopened reads + dump
	re := statedb.NewStateDB(r.store, r.root, false)
	if err := c12ReadAll(re, r.accounts, r.contracts, r.keys, r.model, "reopened after commit"); err != nil {
		return err
	}
	d1, err := c12DumpString(r.store, r.root)
	if err != nil {
		return fmt.Errorf("dump of committed state: %v", err)
	}
	d2, err := c12DumpString(r.refStore, r.refRoot)
	if err != nil {
		return fmt.Errorf("dump of reference state: %v", err)
	}
	if d1 != d2 {
		return fmt.Errorf("full dump differs from reference:\n%s\n--- reference ---\n%s", d1, d2)
	}
	s1, s2 := c12StoreContent(r.store), c12StoreContent(r.refStore)
	for k, v := range s1 {
		if v2, ok := s2[k]; !ok || v2 != v {
			return fmt.Errorf("persisted data differs from reference: key %x present in the store after commit, reference has it=%v (a reverted write left a trace)", k, ok)
		}
	}
	for k := range s2 {
		if _, ok := s1[k]; !ok {
			return fmt.Errorf("persisted data differs from reference: key %x missing", k)
		}
	}
	r.desc = append(r.desc, "commit")
	r.beginBlock()
	return nil
}

func TestC12Snapshots(t *testing.T) {
	rec := ev.New("C12", "snapshot-machine")
	defer rec.Flush()
	accounts := []string{"alice", "bob", "ctrA"}
	contracts := []string{"ctrA", "ctrB", "ctrC"}
	keys := []string{"k1", "k2", "k3", "k4"}
	rapid.Check(t, func(t *rapid.T) {
		r := newC12Run(accounts, contracts, keys)
		nblocks := rapid.IntRange(1, 3).Draw(t, "nblocks")
		for b := 0; b < nblocks; b++ {
			nsteps := rapid.IntRange(1, 12).Draw(t, "nsteps")
			for s := 0; s < nsteps; s++ {
				kind := rapid.IntRange(0, 9).Draw(t, "kind")
				switch {
				case kind <= 1:
					a := rapid.SampledFrom(accounts).Draw(t, "acc")
					if err := r.putAcc(a, c12Acc{uint64(rapid.IntRange(0, 3).Draw(t, "nonce")), uint64(rapid.IntRange(0, 3).Draw(t, "bal"))}); err != nil {
						t.Fatal(err)
					}
				case kind <= 5:
					c := rapid.SampledFrom(contracts).Draw(t, "ctr")
					n := rapid.IntRange(1, 4).Draw(t, "nops")
					var ops []c12StorageOp
					for i := 0; i < n; i++ {
						ops = append(ops, c12StorageOp{key: rapid.SampledFrom(keys).Draw(t, "key"), val: rapid.SampledFrom([]string{"x", "y", ""}).Draw(t, "val"),
							del: rapid.IntRange(0, 3).Draw(t, "del") == 0, inner: rapid.IntRange(0, 2).Draw(t, "inner")})
					}
					if err := r.contractTx(c, ops); err != nil {
						t.Fatal(err)
					}
				case kind <= 7:
					r.snapshot()
				default:
					if len(r.snaps) == 0 {
						r.snapshot()
					} else {
						i := rapid.IntRange(0, len(r.snaps)-1).Draw(t, "snapIdx")
						if err := r.rollback(i); err != nil {
							t.Fatal(err)
						}
					}
				}
				if err := r.check(fmt.Sprintf("block %d step %d (%s)", b, s, r.desc[len(r.desc)-1])); err != nil {
					t.Fatalf("%v\nhistory: %s", err, strings.Join(r.desc, " ; "))
				}
			}
			if err := r.endBlock(); err != nil {
				t.Fatalf("block %d: %v\nhistory: %s", b, err, strings.Join(r.desc, " ; "))
			}
		}
		var cl []string
		for c := range r.classes {
			cl = append(cl, c)
		}
		sort.Strings(cl)
		canon := strings.Join(r.desc, ";")
		rec.Case(strings.Join(cl, ","), canon, r.nontrivial, func() interface{} { return canon })
	})
}

// TestC12Exhaustive enumerates every op sequence of the given depth from a small alphabet
// (1 account, 2 contracts x 2 keys) followed by Update+Commit.
func TestC12Exhaustive(t *testing.T) {
	rec := ev.New("C12", "snapshot-exhaustive")
	defer rec.Flush()
	depth := ev.IntEnv("VERIF_C12_DEPTH", 4)
	nsh := ev.IntEnv("VERIF_NSHARDS", 1)
	shard := ev.IntEnv("VERIF_SHARD_IDX", 0)
	accounts := []string{"alice"}
	contracts := []string{"ctrA", "ctrB"}
	keys := []string{"k1", "k2"}
	type op func(r *c12Run) error
	alphabet := []struct {
		name string
		f    op
	}{
		{"putAlice1", func(r *c12Run) error { return r.putAcc("alice", c12Acc{1, 1}) }},
		{"putAlice2", func(r *c12Run) error { return r.putAcc("alice", c12Acc{2, 0}) }},
		{"A.k1=x", func(r *c12Run) error { return r.contractTx("ctrA", []c12StorageOp{{key: "k1", val: "x"}}) }},
		{"A.k1=y,k2=x", func(r *c12Run) error {
			return r.contractTx("ctrA", []c12StorageOp{{key: "k1", val: "y"}, {key: "k2", val: "x"}})
		}},
		{"A.del k1", func(r *c12Run) error { return r.contractTx("ctrA", []c12StorageOp{{key: "k1", del: true}}) }},
		{"B.k1=x", func(r *c12Run) error { return r.contractTx("ctrB", []c12StorageOp{{key: "k1", val: "x"}}) }},
		{"A.k2=y then csRollback", func(r *c12Run) error {
			return r.contractTx("ctrA", []c12StorageOp{{key: "k2", val: "y", inner: 1}, {key: "k1", val: "z", inner: 2}})
		}},
		{"snapshot", func(r *c12Run) error { r.snapshot(); return nil }},
		{"rollback0", func(r *c12Run) error {
			if len(r.snaps) < 1 {
				return errSkip
			}
			return r.rollback(0)
		}},
		{"rollbackTop", func(r *c12Run) error {
			if len(r.snaps) < 2 {
				return errSkip
			}
			return r.rollback(len(r.snaps) - 1)
		}},
	}
	total := 1
	for i := 0; i < depth; i++ {
		total *= len(alphabet)
	}
	n := 0
	for seq := 0; seq < total; seq++ {
		if seq%nsh != shard {
			continue
		}
		r := newC12Run(accounts, contracts, keys)
		// a committed base block so that rollbacks also restore trie-backed values
		r.putAcc("alice", c12Acc{0, 3})
		r.contractTx("ctrA", []c12StorageOp{{key: "k1", val: "base"}})
		if err := r.endBlock(); err != nil {
			t.Fatal(err)
		}
		x := seq
		skip := false
		var names []string
		for d := 0; d < depth; d++ {
			a := alphabet[x%len(alphabet)]
			x /= len(alphabet)
			err := a.f(r)
			if err == errSkip {
				skip = true
				break
			}
			names = append(names, a.name)
			if err == nil {
				err = r.check("after " + a.name)
			}
			if err != nil {
				rec.WriteReplay(fmt.Sprintf("exh-%d-%d", depth, seq), map[string]interface{}{"depth": depth, "seq": seq, "ops": names, "error": err.Error()})
				t.Fatalf("sequence %v: %v", names, err)
			}
		}
		if skip {
			continue
		}
		if err := r.endBlock(); err != nil {
			rec.WriteReplay(fmt.Sprintf("exh-%d-%d", depth, seq), map[string]interface{}{"depth": depth, "seq": seq, "ops": names, "error": err.Error()})
			t.Fatalf("sequence %v: %v", names, err)
		}
		n++
		rec.Case("exhaustive", fmt.Sprintf("%d/%d", depth, seq), r.classes["rollback"], func() interface{} { return names })
	}
	rec.Note("depth", depth)
	rec.Note("alphabet", len(alphabet))
	rec.SetExhaustive(true)
	t.Logf("C12 exhaustive: %d sequences", n)
}

var errSkip = fmt.Errorf("skip")
