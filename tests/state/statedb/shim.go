//go:build verif

package statedb

import (
	"fmt"

	"github.com/aergoio/aergo-lib/db"
	"github.com/aergoio/aergo/v2/internal/common"
	"github.com/aergoio/aergo/v2/pkg/trie"
	"github.com/aergoio/aergo/v2/types"
)

// VerifAccount is one account of a full state dump.
type VerifAccount struct {
	State   *types.State
	Storage map[string][]byte // storage trie key (hash of the variable key) -> value
}

// VerifFullDump reads EVERYTHING reachable from a state root out of the store: every account
// state and, for every account with a storage root, every storage entry. Unlike RawDump it
// also dumps code-less accounts' storage (system contracts) and surfaces missing trie nodes
// or missing data blobs as errors.
func VerifFullDump(store db.DB, root []byte) (map[types.AccountID]*VerifAccount, error) {
	out := map[types.AccountID]*VerifAccount{}
	if len(root) == 0 {
		return out, nil
	}
	tr := trie.NewTrie(root, common.Hasher, store)
	keys, vals, err := tr.VerifWalk(root)
	if err != nil {
		return nil, fmt.Errorf("state trie walk: %v", err)
	}
	for i, k := range keys {
		st := &types.State{}
		if err := loadData(store, vals[i], st); err != nil {
			return nil, fmt.Errorf("state blob of %x: %v", k, err)
		}
		if !store.Exist(vals[i]) {
			return nil, fmt.Errorf("state blob of account %x (hash %x) missing in store", k, vals[i])
		}
		acc := &VerifAccount{State: st, Storage: map[string][]byte{}}
		sroot := common.Compactz(st.StorageRoot)
		if len(sroot) != 0 {
			str := trie.NewTrie(sroot, common.Hasher, store)
			sk, sv, err := str.VerifWalk(sroot)
			if err != nil {
				return nil, fmt.Errorf("storage trie walk of %x: %v", k, err)
			}
			for j := range sk {
				if !store.Exist(sv[j]) {
					return nil, fmt.Errorf("storage blob %x of account %x missing in store", sv[j], k)
				}
				val := []byte{}
				if err := loadData(store, sv[j], &val); err != nil {
					return nil, fmt.Errorf("storage blob of %x/%x: %v", k, sk[j], err)
				}
				acc.Storage[string(sk[j])] = val
			}
		}
		out[types.AccountID(types.ToHashID(k))] = acc
	}
	return out, nil
}

// VerifBufferLen exposes the number of buffered account entries (for residue checks).
func (states *StateDB) VerifBufferLen() int { return len(states.Buffer.entries) }

// VerifCachedStorages exposes the ids of staged contract storages.
func (states *StateDB) VerifCachedStorages() []types.AccountID {
	var out []types.AccountID
	for id := range states.Cache.storages {
		out = append(out, id)
	}
	return out
}
