//go:build verif

package statedb

// C11 at the level a light client sees it: StateDB.GetAccountAndProof / GetVarAndProof for the
// latest and for every historical root, plain and compressed. Oracle: a model that records, per
// committed block, every account state and every contract variable; the returned state/value
// and inclusion flag must be the model's for THAT root, and the proof must verify against that
// root with the leaf value recomputed by the client from the returned content (sha256 of the
// serialised state / of the value) — through the repository verifier. Transplants (another
// root of the same history, the leaf recomputed from another block's content) must be refused
// unless the claim they would support is true in the model.

import (
	"bytes"
	"crypto/sha256"
	"fmt"
	"sort"
	"strings"
	"testing"

	"github.com/aergoio/aergo-lib/db"
	"github.com/aergoio/aergo/v2/internal/common"
	"github.com/aergoio/aergo/v2/internal/enc/proto"
	"github.com/aergoio/aergo/v2/pkg/trie"
	"github.com/aergoio/aergo/v2/types"
	"github.com/aergoio/aergo/v2/verifx/ev"
	"pgregory.net/rapid"
)

type c11Block struct {
	root     []byte
	accounts map[string]*types.State      // account id (string of 32 bytes) -> state
	vars     map[string]map[string][]byte // contract id -> var key -> value
}

func c11AccID(i int) types.AccountID {
	return types.ToAccountID([]byte(fmt.Sprintf("c11-account-%d", i)))
}

func c11ClientLeafOfState(st *types.State) []byte {
	b, err := proto.Encode(st)
	if err != nil {
		panic(err)
	}
	h := sha256.Sum256(b)
	return h[:]
}

func c11VerifyAccount(root []byte, id []byte, p *types.AccountProof, compressed bool) bool {
	tr := trie.NewTrie(root, common.Hasher, nil)
	key := id
	if p.Inclusion {
		if p.State == nil {
			return false
		}
		leaf := c11ClientLeafOfState(p.State)
		if compressed {
			return tr.VerifyInclusionC(p.Bitmap, key, leaf, p.AuditPath, int(p.Height))
		}
		return tr.VerifyInclusion(p.AuditPath, key, leaf)
	}
	if compressed {
		return tr.VerifyNonInclusionC(p.AuditPath, int(p.Height), p.Bitmap, key, p.ProofVal, p.ProofKey)
	}
	return tr.VerifyNonInclusion(p.AuditPath, key, p.ProofVal, p.ProofKey)
}

func c11VerifyVar(root []byte, key []byte, p *types.ContractVarProof, compressed bool) bool {
	tr := trie.NewTrie(root, common.Hasher, nil)
	if p.Inclusion {
		h := sha256.Sum256(p.Value)
		if compressed {
			return tr.VerifyInclusionC(p.Bitmap, key, h[:], p.AuditPath, int(p.Height))
		}
		return tr.VerifyInclusion(p.AuditPath, key, h[:])
	}
	if compressed {
		return tr.VerifyNonInclusionC(p.AuditPath, int(p.Height), p.Bitmap, key, p.ProofVal, p.ProofKey)
	}
	return tr.VerifyNonInclusion(p.AuditPath, key, p.ProofVal, p.ProofKey)
}

func safely(f func() bool) (ok bool) {
	defer func() {
		if r := recover(); r != nil {
			ok = false
		}
	}()
	return f()
}

func TestC11StateProofs(t *testing.T) {
	rec := ev.New("C11", "stateproofs")
	defer rec.Flush()
	rapid.Check(t, func(t *rapid.T) {
		store := db.NewDB(db.MemoryImpl, "")
		defer store.Close()
		sdb := NewStateDB(store, nil, false)
		nacc := rapid.IntRange(2, 24).Draw(t, "nacc")
		nctr := rapid.IntRange(1, 2).Draw(t, "nctr")
		nblocks := rapid.IntRange(1, 4).Draw(t, "nblocks")
		var blocks []*c11Block
		cur := &c11Block{accounts: map[string]*types.State{}, vars: map[string]map[string][]byte{}}
		var hist []string
		for b := 0; b < nblocks; b++ {
			nops := rapid.IntRange(1, 8).Draw(t, "nops")
			var ops []string
			for o := 0; o < nops; o++ {
				// the state of a node is never empty (genesis funds accounts): the first operation
				// of the first block is an account put
				if (b == 0 && o == 0) || rapid.IntRange(0, 2).Draw(t, "opkind") < 2 {
					i := rapid.IntRange(0, nacc-1).Draw(t, "acc")
					id := c11AccID(i)
					st, err := sdb.GetAccountState(id)
					if err != nil {
						t.Fatal(err)
					}
					st = st.Clone()
					st.Nonce++
					st.Balance = []byte{byte(rapid.IntRange(1, 200).Draw(t, "bal")), byte(b)}
					if err := sdb.PutState(id, st); err != nil {
						t.Fatal(err)
					}
					cur.accounts[string(id[:])] = st
					ops = append(ops, fmt.Sprintf("put a%d", i))
				} else {
					c := rapid.IntRange(0, nctr-1).Draw(t, "ctr")
					caddr := c11AccID(1000 + c) // stands for the contract's address; its account id is the hash of that
					cid := types.ToAccountID(caddr[:])
					st, err := sdb.GetAccountState(cid)
					if err != nil {
						t.Fatal(err)
					}
					cs, err := OpenContractState(caddr[:], st, sdb)
					if err != nil {
						t.Fatal(err)
					}
					nk := rapid.IntRange(1, 4).Draw(t, "nkeys")
					for k := 0; k < nk; k++ {
						vk := fmt.Sprintf("var%d", rapid.IntRange(0, 9).Draw(t, "vk"))
						if cur.vars[string(cid[:])] == nil {
							cur.vars[string(cid[:])] = map[string][]byte{}
						}
						if rapid.IntRange(0, 3).Draw(t, "del") == 0 {
							cs.DeleteData([]byte(vk))
							delete(cur.vars[string(cid[:])], vk)
							ops = append(ops, fmt.Sprintf("del c%d.%s", c, vk))
						} else {
							val := []byte(fmt.Sprintf("v%d-%d", b, rapid.IntRange(0, 99).Draw(t, "val")))
							cs.SetData([]byte(vk), val)
							cur.vars[string(cid[:])][vk] = val
							ops = append(ops, fmt.Sprintf("set c%d.%s", c, vk))
						}
					}
					if err := StageContractState(cs, sdb); err != nil {
						t.Fatal(err)
					}
					cur.accounts[string(cid[:])] = nil // filled in after update (storage root)
				}
			}
			if err := sdb.Update(); err != nil {
				t.Fatal(err)
			}
			if err := sdb.Commit(); err != nil {
				t.Fatal(err)
			}
			for id, st := range cur.accounts {
				if st == nil {
					var aid types.AccountID
					copy(aid[:], id)
					s, err := sdb.GetAccountState(aid)
					if err != nil {
						t.Fatal(err)
					}
					if s == nil || len(s.StorageRoot) == 0 {
						delete(cur.accounts, id) // nothing is stored for this contract (all its variables were deleted again)
						continue
					}
					cur.accounts[id] = s.Clone()
				}
			}
			snap := &c11Block{root: append([]byte{}, sdb.GetRoot()...), accounts: map[string]*types.State{}, vars: map[string]map[string][]byte{}}
			for id, st := range cur.accounts {
				snap.accounts[id] = st.Clone()
			}
			for c, m := range cur.vars {
				snap.vars[c] = map[string][]byte{}
				for k, v := range m {
					snap.vars[c][k] = v
				}
			}
			blocks = append(blocks, snap)
			hist = append(hist, strings.Join(ops, ","))
		}
		// the node: a fresh StateDB opened at the latest root
		node := NewStateDB(store, blocks[len(blocks)-1].root, false)
		classes := map[string]bool{}
		nontrivial := false
		nq := rapid.IntRange(3, 12).Draw(t, "nqueries")
		for q := 0; q < nq; q++ {
			bi := rapid.IntRange(0, len(blocks)-1).Draw(t, "atBlock")
			blk := blocks[bi]
			compressed := rapid.Bool().Draw(t, "compressed")
			root := blk.root
			latestNil := bi == len(blocks)-1 && rapid.Bool().Draw(t, "nilRoot")
			qroot := root
			if latestNil {
				qroot = nil
			}
			historical := bi < len(blocks)-1
			if rapid.IntRange(0, 2).Draw(t, "what") < 2 {
				// ---- account proof
				i := rapid.IntRange(0, nacc+3).Draw(t, "qacc")
				id := c11AccID(i)
				p, err := node.GetAccountAndProof(id[:], qroot, compressed)
				if err != nil {
					t.Fatalf("GetAccountAndProof(a%d, block %d, compressed=%v): %v\nhistory: %v", i, bi, compressed, err, hist)
				}
				want, present := blk.accounts[string(id[:])]
				where := fmt.Sprintf("account a%d at block %d of %d (compressed=%v, nil root=%v)\nhistory: %v", i, bi, len(blocks), compressed, latestNil, hist)
				if p.Inclusion != present {
					t.Fatalf("proof says included=%v but the account is present=%v in that block: %s", p.Inclusion, present, where)
				}
				if present {
					wb, _ := proto.Encode(want)
					gb, _ := proto.Encode(p.State)
					if !bytes.Equal(wb, gb) {
						t.Fatalf("proof returns state nonce=%d balance=%x, the state stored at that root is nonce=%d balance=%x: %s", p.State.GetNonce(), p.State.GetBalance(), want.Nonce, want.Balance, where)
					}
					changedLater := false
					for _, later := range blocks[bi+1:] {
						lb, _ := proto.Encode(later.accounts[string(id[:])])
						if !bytes.Equal(lb, wb) {
							changedLater = true
						}
					}
					if historical && changedLater {
						classes["historical-account-changed-later"] = true
						nontrivial = true
					}
				} else if p.ProofKey != nil {
					classes["account-absent-foreign-leaf"] = true
				}
				if !safely(func() bool { return c11VerifyAccount(root, id[:], p, compressed) }) {
					t.Fatalf("honest proof does not verify against the root of its block: %s", where)
				}
				// transplant to every other root of the history: accepted only if true there
				for oj, other := range blocks {
					if oj == bi || bytes.Equal(other.root, root) {
						continue
					}
					if safely(func() bool { return c11VerifyAccount(other.root, id[:], p, compressed) }) {
						ost, opresent := other.accounts[string(id[:])]
						same := opresent == present
						if same && present {
							ob, _ := proto.Encode(ost)
							wb, _ := proto.Encode(want)
							same = bytes.Equal(ob, wb)
						}
						if !same {
							t.Fatalf("proof made for block %d verifies against the root of block %d where the claim is false: %s", bi, oj, where)
						}
					}
				}
				classes[fmt.Sprintf("account:incl=%v", p.Inclusion)] = true
			} else {
				// ---- contract variable proof
				c := rapid.IntRange(0, nctr-1).Draw(t, "qctr")
				caddr := c11AccID(1000 + c)
				cid := types.ToAccountID(caddr[:])
				cst := blk.accounts[string(cid[:])]
				if cst == nil {
					// the contract holds nothing at this block: ask a plain account (exists, never had storage) instead
					var ids []string
					for id, st := range blk.accounts {
						if len(st.StorageRoot) == 0 {
							ids = append(ids, id)
						}
					}
					if len(ids) == 0 {
						continue
					}
					sort.Strings(ids)
					cst = blk.accounts[rapid.SampledFrom(ids).Draw(t, "plainAcc")]
				}
				vk := fmt.Sprintf("var%d", rapid.IntRange(0, 11).Draw(t, "qvk"))
				tkey := common.Hasher([]byte(vk))
				if len(cst.StorageRoot) == 0 {
					// an existing account without storage (all variables deleted again, or never written): every variable
					// is absent, and the proof of that belongs to the EMPTY storage trie, not to any other trie. The key may
					// be anything a client sends, also the trie key of an account
					if rapid.Bool().Draw(t, "keyIsAnAccountId") {
						var ids []string
						for id := range blk.accounts {
							ids = append(ids, id)
						}
						sort.Strings(ids)
						tkey = []byte(rapid.SampledFrom(ids).Draw(t, "otherAcc"))
					}
					p, err := node.GetVarAndProof(tkey, cst.StorageRoot, compressed)
					if err != nil {
						t.Fatalf("GetVarAndProof on an account without storage: %v\nhistory: %v", err, hist)
					}
					where := fmt.Sprintf("variable %x of c%d, which has NO storage, at block %d (compressed=%v)\nhistory: %v", tkey[:4], c, bi, compressed, hist)
					if p.Inclusion {
						t.Fatalf("the node claims that an account without storage holds a variable (value of %d bytes): %s", len(p.Value), where)
					}
					if !safely(func() bool { return c11VerifyVar(nil, tkey, p, compressed) }) {
						t.Fatalf("the proof of absence (%d audit nodes, proof key %x) does not verify against the empty storage root: %s", len(p.AuditPath), p.ProofKey, where)
					}
					classes["var-of-storage-less-account"] = true
					continue
				}
				p, err := node.GetVarAndProof(tkey, cst.StorageRoot, compressed)
				if err != nil {
					t.Fatalf("GetVarAndProof: %v\nhistory: %v", err, hist)
				}
				want, present := blk.vars[string(cid[:])][vk]
				where := fmt.Sprintf("variable c%d.%s at block %d of %d (compressed=%v)\nhistory: %v", c, vk, bi, len(blocks), compressed, hist)
				if p.Inclusion != present {
					t.Fatalf("proof says included=%v but the variable is present=%v: %s", p.Inclusion, present, where)
				}
				if present && !bytes.Equal(p.Value, want) {
					t.Fatalf("proof returns value %q, stored value at that root is %q: %s", p.Value, want, where)
				}
				if !safely(func() bool { return c11VerifyVar(cst.StorageRoot, tkey, p, compressed) }) {
					t.Fatalf("honest variable proof does not verify against the contract's storage root: %s", where)
				}
				for oj, other := range blocks {
					ocst := other.accounts[string(cid[:])]
					if oj == bi || ocst == nil || len(ocst.StorageRoot) == 0 || bytes.Equal(ocst.StorageRoot, cst.StorageRoot) {
						continue
					}
					if safely(func() bool { return c11VerifyVar(ocst.StorageRoot, tkey, p, compressed) }) {
						ov, opresent := other.vars[string(cid[:])][vk]
						if opresent != present || (present && !bytes.Equal(ov, want)) {
							t.Fatalf("variable proof made for block %d verifies against the storage root of block %d where the claim is false: %s", bi, oj, where)
						}
					}
				}
				if historical {
					nontrivial = true
					classes["historical-variable"] = true
				}
				classes[fmt.Sprintf("var:incl=%v", p.Inclusion)] = true
			}
		}
		var cl []string
		for c := range classes {
			cl = append(cl, c)
		}
		sort.Strings(cl)
		rec.Case(strings.Join(cl, ","), fmt.Sprintf("%d|%d|%v", nacc, nctr, hist), nontrivial, func() interface{} {
			return map[string]interface{}{"accounts": nacc, "contracts": nctr, "blocks": hist}
		})
	})
}
