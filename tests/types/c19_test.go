//go:build verif

package types

// C19 — canonical, binding encodings (block id, tx id, signing digest of the header, tx root,
// receipts root, receipts / chain id / genesis round trips).

import (
	"bytes"
	"fmt"
	"reflect"
	"sort"
	"strings"
	"testing"

	"github.com/aergoio/aergo/v2/verifx/ev"
	"github.com/willf/bloom"
	"pgregory.net/rapid"
)

func c19Bytes(t *rapid.T, label string, min, max int) []byte {
	return rapid.SliceOfN(rapid.Byte(), min, max).Draw(t, label)
}

// c19MutBytes returns a byte string different from b (nil<->empty is not a difference).
func c19MutBytes(t *rapid.T, label string, b []byte) []byte {
	for {
		o := append([]byte{}, b...)
		switch rapid.IntRange(0, 3).Draw(t, label+"-mut") {
		case 0:
			if len(o) > 0 {
				i := rapid.IntRange(0, len(o)*8-1).Draw(t, label+"-bit")
				o[i/8] ^= 1 << uint(i%8)
			} else {
				o = append(o, rapid.Byte().Draw(t, label+"-app"))
			}
		case 1:
			o = append(o, rapid.Byte().Draw(t, label+"-app"))
		case 2:
			if len(o) > 0 {
				o = o[:len(o)-1]
			} else {
				o = append(o, 1)
			}
		default:
			if len(o) > 0 {
				o = append([]byte{rapid.Byte().Draw(t, label+"-pre")}, o...)
			} else {
				o = []byte{0}
			}
		}
		if !bytes.Equal(o, b) {
			return o
		}
	}
}

func c19Header(t *rapid.T) *BlockHeader {
	h := &BlockHeader{
		ChainID:          c19Bytes(t, "chainid", 4, 40),
		PrevBlockHash:    c19Bytes(t, "prev", 32, 32),
		BlockNo:          rapid.Uint64().Draw(t, "no"),
		Timestamp:        rapid.Int64().Draw(t, "ts"),
		BlocksRootHash:   c19Bytes(t, "sroot", 32, 32),
		TxsRootHash:      c19Bytes(t, "troot", 32, 32),
		ReceiptsRootHash: c19Bytes(t, "rroot", 32, 32),
		Confirms:         rapid.Uint64().Draw(t, "confirms"),
		PubKey:           c19Bytes(t, "pubkey", 0, 40),
		CoinbaseAccount:  c19Bytes(t, "coinbase", 0, 33),
		Sign:             c19Bytes(t, "sign", 0, 72),
		Consensus:        c19Bytes(t, "consensus", 0, 24),
	}
	return h
}

var c19HeaderFields = []string{"ChainID", "PrevBlockHash", "BlockNo", "Timestamp", "BlocksRootHash", "TxsRootHash", "ReceiptsRootHash", "Confirms", "PubKey", "CoinbaseAccount", "Sign", "Consensus"}

func c19CloneHeader(h *BlockHeader) *BlockHeader {
	c := &BlockHeader{}
	v, cv := reflect.ValueOf(h).Elem(), reflect.ValueOf(c).Elem()
	for _, f := range c19HeaderFields {
		fv := v.FieldByName(f)
		if fv.Kind() == reflect.Slice {
			cv.FieldByName(f).SetBytes(append([]byte{}, fv.Bytes()...))
		} else {
			cv.FieldByName(f).Set(fv)
		}
	}
	return c
}

func c19MutateField(t *rapid.T, st interface{}, field string) {
	fv := reflect.ValueOf(st).Elem().FieldByName(field)
	switch fv.Kind() {
	case reflect.Slice:
		fv.SetBytes(c19MutBytes(t, field, fv.Bytes()))
	case reflect.Uint64:
		d := rapid.Uint64Range(1, ^uint64(0)).Draw(t, field+"-delta")
		fv.SetUint(fv.Uint() + d)
	case reflect.Int64, reflect.Int32:
		d := rapid.Int64Range(1, 1<<30).Draw(t, field+"-delta")
		if fv.Kind() == reflect.Int32 {
			fv.SetInt(int64(int32(fv.Int()) + int32(d%100+1)))
		} else {
			fv.SetInt(fv.Int() + d)
		}
	case reflect.Bool:
		fv.SetBool(!fv.Bool())
	case reflect.String:
		fv.SetString(fv.String() + rapid.StringN(1, 3, 3).Draw(t, field+"-sfx"))
	default:
		panic("unhandled kind " + fv.Kind().String())
	}
}

func TestC19BlockID(t *testing.T) {
	rec := ev.New("C19", "block-id")
	defer rec.Flush()
	rapid.Check(t, func(t *rapid.T) {
		h := c19Header(t)
		blk := &Block{Header: h}
		id := append([]byte{}, blk.BlockHash()...)
		dig, err := h.bytesForDigest()
		if err != nil {
			t.Fatal(err)
		}
		field := rapid.SampledFrom(c19HeaderFields).Draw(t, "field")
		m := c19CloneHeader(h)
		c19MutateField(t, m, field)
		mid := (&Block{Header: m}).BlockHash()
		if bytes.Equal(id, mid) {
			t.Fatalf("block id unchanged after changing header field %s", field)
		}
		mdig, _ := m.bytesForDigest()
		if field == "Sign" {
			if !bytes.Equal(dig, mdig) {
				t.Fatalf("signed digest depends on the signature itself")
			}
		} else if bytes.Equal(dig, mdig) {
			t.Fatalf("signed digest of the header does not cover field %s", field)
		}
		// identical headers -> identical ids (determinism)
		if !bytes.Equal(id, (&Block{Header: c19CloneHeader(h)}).BlockHash()) {
			t.Fatalf("block id not a function of the header")
		}
		idx := sort.SearchStrings(nil, field)
		_ = idx
		rec.Case("field:"+field, fmt.Sprintf("%x|%s|%x", id, field, mid), field != "ChainID" && field != "Consensus", func() interface{} {
			return map[string]interface{}{"mutated_field": field, "id": fmt.Sprintf("%x", id), "mutated_id": fmt.Sprintf("%x", mid)}
		})
	})
}

var c19TxFields = []string{"Nonce", "Account", "Recipient", "Amount", "Payload", "GasLimit", "GasPrice", "Type", "ChainIdHash", "Sign"}

func c19TxBody(t *rapid.T) *TxBody {
	return &TxBody{
		Nonce:       rapid.Uint64().Draw(t, "nonce"),
		Account:     c19Bytes(t, "account", 0, 33),
		Recipient:   c19Bytes(t, "recipient", 0, 33),
		Amount:      c19Bytes(t, "amount", 0, 16),
		Payload:     c19Bytes(t, "payload", 0, 64),
		GasLimit:    rapid.Uint64().Draw(t, "gaslimit"),
		GasPrice:    c19Bytes(t, "gasprice", 0, 8),
		Type:        TxType(rapid.IntRange(0, 8).Draw(t, "type")),
		ChainIdHash: c19Bytes(t, "cidhash", 32, 32),
		Sign:        c19Bytes(t, "sign", 0, 72),
	}
}

func c19CloneTxBody(b *TxBody) *TxBody {
	return &TxBody{Nonce: b.Nonce, Account: append([]byte{}, b.Account...), Recipient: append([]byte{}, b.Recipient...),
		Amount: append([]byte{}, b.Amount...), Payload: append([]byte{}, b.Payload...), GasLimit: b.GasLimit,
		GasPrice: append([]byte{}, b.GasPrice...), Type: b.Type, ChainIdHash: append([]byte{}, b.ChainIdHash...), Sign: append([]byte{}, b.Sign...)}
}

func TestC19TxID(t *testing.T) {
	rec := ev.New("C19", "tx-id")
	defer rec.Flush()
	rapid.Check(t, func(t *rapid.T) {
		b := c19TxBody(t)
		id := (&Tx{Body: b}).CalculateTxHash()
		field := rapid.SampledFrom(c19TxFields).Draw(t, "field")
		m := c19CloneTxBody(b)
		c19MutateField(t, m, field)
		mid := (&Tx{Body: m}).CalculateTxHash()
		if bytes.Equal(id, mid) {
			t.Fatalf("tx id unchanged after changing field %s", field)
		}
		if !bytes.Equal(id, (&Tx{Body: c19CloneTxBody(b)}).CalculateTxHash()) {
			t.Fatalf("tx id not a function of the body")
		}
		rec.Case("field:"+field, fmt.Sprintf("%x|%s|%x", id, field, mid), field != "Nonce" && field != "Sign", func() interface{} {
			return map[string]interface{}{"mutated_field": field, "id": fmt.Sprintf("%x", id), "mutated_id": fmt.Sprintf("%x", mid)}
		})
	})
}

// ---- ordered lists: tx root and receipts root ---------------------------------------------

type c19ListOp struct {
	kind string
	i, j int
}

// applyListOp returns a copy of idx (a list of element identities) after the op; fresh() gives
// a new identity.
func c19ApplyListOp(t *rapid.T, n int, fresh func() int, ids []int) ([]int, string) {
	out := append([]int{}, ids...)
	kinds := []string{"replace", "insert", "dup-last", "dup-elem"}
	if n >= 1 {
		kinds = append(kinds, "delete")
	}
	if n >= 2 {
		kinds = append(kinds, "swap")
	}
	k := rapid.SampledFrom(kinds).Draw(t, "listop")
	if n == 0 {
		k = "insert"
	}
	switch k {
	case "replace":
		i := rapid.IntRange(0, n-1).Draw(t, "i")
		out[i] = fresh()
	case "swap":
		i := rapid.IntRange(0, n-2).Draw(t, "i")
		j := rapid.IntRange(i+1, n-1).Draw(t, "j")
		out[i], out[j] = out[j], out[i]
	case "insert":
		i := rapid.IntRange(0, n).Draw(t, "i")
		out = append(out[:i], append([]int{fresh()}, out[i:]...)...)
	case "delete":
		i := rapid.IntRange(0, n-1).Draw(t, "i")
		out = append(out[:i], out[i+1:]...)
	case "dup-last":
		c := rapid.IntRange(1, 3).Draw(t, "copies")
		for x := 0; x < c; x++ {
			out = append(out, out[len(out)-1])
		}
	case "dup-elem":
		i := rapid.IntRange(0, n-1).Draw(t, "i")
		j := rapid.IntRange(0, n).Draw(t, "j")
		out = append(out[:j], append([]int{ids[i]}, out[j:]...)...)
	}
	return out, k
}

// trailing-duplication predicate of the known Merkle ambiguity: one list is the other plus
// copies of the other's last element.
func c19IsTrailingDup(a, b []int) bool {
	if len(a) > len(b) {
		a, b = b, a
	}
	if len(a) == 0 || len(a) == len(b) {
		return false
	}
	for i := range a {
		if a[i] != b[i] {
			return false
		}
	}
	for _, x := range b[len(a):] {
		if x != a[len(a)-1] {
			return false
		}
	}
	return true
}

func TestC19TxRoot(t *testing.T) {
	rec := ev.New("C19", "tx-root")
	defer rec.Flush()
	rapid.Check(t, func(t *rapid.T) {
		n := rapid.IntRange(1, 9).Draw(t, "n")
		var pool []*Tx
		fresh := func() int {
			b := c19TxBody(t)
			tx := &Tx{Body: b}
			tx.Hash = tx.CalculateTxHash()
			for _, p := range pool {
				if bytes.Equal(p.Hash, tx.Hash) {
					b.Nonce++
					tx.Hash = tx.CalculateTxHash()
				}
			}
			pool = append(pool, tx)
			return len(pool) - 1
		}
		ids := make([]int, n)
		for i := range ids {
			ids[i] = fresh()
		}
		mk := func(l []int) []*Tx {
			o := make([]*Tx, len(l))
			for i, x := range l {
				o[i] = pool[x]
			}
			return o
		}
		root := CalculateTxsRootHash(mk(ids))
		if !bytes.Equal(root, CalculateTxsRootHash(mk(ids))) {
			t.Fatalf("tx root not deterministic")
		}
		mids, kind := c19ApplyListOp(t, n, fresh, ids)
		mroot := CalculateTxsRootHash(mk(mids))
		same := reflect.DeepEqual(ids, mids)
		if !same && bytes.Equal(root, mroot) {
			if c19IsTrailingDup(ids, mids) && rec.IsKnown("merkle-trailing-duplicate") {
				rec.Excluded("merkle-trailing-duplicate")
			} else {
				t.Fatalf("tx root unchanged by list op %s: %v -> %v", kind, ids, mids)
			}
		}
		rec.Case("op:"+kind, fmt.Sprintf("%x|%v|%v", root, ids, mids), n >= 3, func() interface{} {
			return map[string]interface{}{"list(tx identities)": ids, "op": kind, "mutated": mids}
		})
	})
}

// ---- receipts -------------------------------------------------------------------------------

func c19Addr(t *rapid.T, label string) []byte {
	a := c19Bytes(t, label, 33, 33)
	a[0] = rapid.SampledFrom([]byte{0x02, 0x03, 0x0C}).Draw(t, label+"-prefix")
	return a
}

func c19Event(t *rapid.T, receiptAddr []byte, idx int) *Event {
	addr := receiptAddr
	if rapid.IntRange(0, 2).Draw(t, "evOtherAddr") == 0 {
		addr = c19Addr(t, "evaddr")
	}
	return &Event{ContractAddress: append([]byte{}, addr...), EventName: rapid.StringN(0, 8, 16).Draw(t, "evname"),
		JsonArgs: rapid.SampledFrom([]string{"[]", "[1]", `["a",{"b":2}]`, ""}).Draw(t, "evargs"), EventIdx: int32(idx),
		TxHash: nil}
}

func c19Receipt(t *rapid.T, v2 bool) *Receipt {
	addr := c19Addr(t, "raddr")
	status := rapid.SampledFrom([]string{"SUCCESS", "CREATED", "ERROR", "RECREATED"}).Draw(t, "status")
	r := NewReceipt(addr, status, rapid.SampledFrom([]string{"", `"ok"`, `{"a":1}`, "error: x"}).Draw(t, "ret"))
	r.TxHash = c19Bytes(t, "txhash", 32, 32)
	r.FeeUsed = c19Bytes(t, "feeused", 0, 9)
	if rapid.IntRange(0, 4).Draw(t, "withCumulativeFee") == 0 {
		// the stored form has a length-prefixed field for it (the node leaves it empty today)
		r.CumulativeFeeUsed = c19Bytes(t, "cumfee", 1, 9)
	}
	if v2 {
		r.GasUsed = rapid.Uint64().Draw(t, "gasused")
		r.FeeDelegation = rapid.Bool().Draw(t, "feedeleg")
	}
	ne := rapid.IntRange(0, 3).Draw(t, "nevents")
	if rapid.Bool().Draw(t, "noevents") {
		ne = 0
	}
	for i := 0; i < ne; i++ {
		e := c19Event(t, addr, i)
		e.TxHash = r.TxHash
		r.Events = append(r.Events, e)
	}
	return r
}

// c19Receipts assembles a Receipts the way state.BlockState.AddReceipt does.
func c19Assemble(list []*Receipt, v2 bool) *Receipts {
	rs := &Receipts{}
	ver := DummyBlockVersionner(0)
	if v2 {
		ver = 2
	}
	rs.SetHardFork(ver, 7)
	var out []*Receipt
	for _, r0 := range list {
		r := c19CloneReceipt(r0)
		r.Bloom = nil
		if len(r.Events) > 0 {
			rBloom := bloom.New(BloomBitBits, BloomHashKNum)
			for _, e := range r.Events {
				rBloom.Add(e.ContractAddress)
				rBloom.Add([]byte(e.EventName))
			}
			bin, _ := rBloom.GobEncode()
			r.Bloom = bin[24:]
			if err := rs.MergeBloom(rBloom); err != nil {
				panic(err)
			}
		}
		out = append(out, r)
	}
	rs.Set(out)
	return rs
}

func c19CloneReceipt(r *Receipt) *Receipt {
	c := &Receipt{ContractAddress: append([]byte{}, r.ContractAddress...), Status: r.Status, Ret: r.Ret, TxHash: append([]byte{}, r.TxHash...),
		FeeUsed: append([]byte{}, r.FeeUsed...), CumulativeFeeUsed: append([]byte{}, r.CumulativeFeeUsed...), GasUsed: r.GasUsed, FeeDelegation: r.FeeDelegation, Bloom: append([]byte{}, r.Bloom...)}
	for _, e := range r.Events {
		c.Events = append(c.Events, &Event{ContractAddress: append([]byte{}, e.ContractAddress...), EventName: e.EventName, JsonArgs: e.JsonArgs,
			EventIdx: e.EventIdx, TxHash: append([]byte{}, e.TxHash...)})
	}
	return c
}

// mutate one consensus-relevant field of a receipt for the given format version
func c19MutateReceipt(t *rapid.T, r *Receipt, v2 bool) string {
	fields := []string{"Status", "ContractAddress", "TxHash", "FeeUsed", "Events"}
	if r.Status != "ERROR" {
		fields = append(fields, "Ret")
	}
	if v2 {
		fields = append(fields, "GasUsed", "FeeDelegation")
	}
	f := rapid.SampledFrom(fields).Draw(t, "rfield")
	switch f {
	case "Status":
		old := r.Status
		for r.Status == old {
			r.Status = rapid.SampledFrom([]string{"SUCCESS", "CREATED", "ERROR", "RECREATED"}).Draw(t, "newstatus")
		}
		if (old == "ERROR") != (r.Status == "ERROR") && r.Ret == "" {
			// switching the ERROR encoding on/off with an empty Ret still changes the status byte
		}
	case "ContractAddress":
		i := rapid.IntRange(8, 33*8-1).Draw(t, "abit")
		r.ContractAddress[i/8] ^= 1 << uint(i%8)
	case "TxHash":
		i := rapid.IntRange(0, 255).Draw(t, "hbit")
		r.TxHash[i/8] ^= 1 << uint(i%8)
		for _, e := range r.Events {
			e.TxHash = r.TxHash
		}
	case "FeeUsed":
		r.FeeUsed = c19MutBytes(t, "fee", r.FeeUsed)
	case "Ret":
		r.Ret = r.Ret + rapid.StringN(1, 2, 4).Draw(t, "retsfx")
	case "GasUsed":
		r.GasUsed += rapid.Uint64Range(1, 1<<40).Draw(t, "gasdelta")
	case "FeeDelegation":
		r.FeeDelegation = !r.FeeDelegation
	case "Events":
		sub := rapid.IntRange(0, 4).Draw(t, "evmut")
		if len(r.Events) == 0 || sub == 0 {
			e := c19Event(t, r.ContractAddress, len(r.Events))
			e.TxHash = r.TxHash
			r.Events = append(r.Events, e)
			return "Events.add"
		}
		i := rapid.IntRange(0, len(r.Events)-1).Draw(t, "evi")
		switch sub {
		case 1:
			r.Events = append(r.Events[:i], r.Events[i+1:]...)
			return "Events.remove"
		case 2:
			r.Events[i].EventName += "x"
			return "Events.name"
		case 3:
			r.Events[i].JsonArgs += " "
			return "Events.args"
		default:
			r.Events[i].EventIdx += 1
			return "Events.idx"
		}
	}
	return f
}

func c19ReceiptEq(a, b *Receipt, v2 bool) string {
	if !bytes.Equal(a.ContractAddress, b.ContractAddress) {
		return "ContractAddress"
	}
	if a.Status != b.Status {
		return "Status"
	}
	if a.Ret != b.Ret {
		return "Ret"
	}
	if !bytes.Equal(a.TxHash, b.TxHash) {
		return "TxHash"
	}
	if !bytes.Equal(a.FeeUsed, b.FeeUsed) {
		return "FeeUsed"
	}
	if !bytes.Equal(a.CumulativeFeeUsed, b.CumulativeFeeUsed) {
		return "CumulativeFeeUsed"
	}
	if v2 && (a.GasUsed != b.GasUsed || a.FeeDelegation != b.FeeDelegation) {
		return "GasUsed/FeeDelegation"
	}
	if !bytes.Equal(a.Bloom, b.Bloom) {
		return "Bloom"
	}
	if len(a.Events) != len(b.Events) {
		return "len(Events)"
	}
	for i := range a.Events {
		x, y := a.Events[i], b.Events[i]
		if !bytes.Equal(x.ContractAddress, y.ContractAddress) || x.EventName != y.EventName || x.JsonArgs != y.JsonArgs || x.EventIdx != y.EventIdx {
			return fmt.Sprintf("Events[%d]", i)
		}
	}
	return ""
}

func TestC19Receipts(t *testing.T) {
	rec := ev.New("C19", "receipts")
	defer rec.Flush()
	rapid.Check(t, func(t *rapid.T) {
		v2 := rapid.Bool().Draw(t, "v2format")
		n := rapid.IntRange(1, 6).Draw(t, "n")
		var pool []*Receipt
		fresh := func() int {
			r := c19Receipt(t, v2)
			// every receipt belongs to a different transaction
			r.TxHash[0], r.TxHash[1] = byte(len(pool)), 0xA5
			for _, e := range r.Events {
				e.TxHash = r.TxHash
			}
			pool = append(pool, r)
			return len(pool) - 1
		}
		ids := make([]int, n)
		for i := range ids {
			ids[i] = fresh()
		}
		mk := func(l []int) []*Receipt {
			o := make([]*Receipt, len(l))
			for i, x := range l {
				o[i] = pool[x]
			}
			return o
		}
		rs := c19Assemble(mk(ids), v2)
		root := rs.MerkleRoot()
		if !bytes.Equal(root, c19Assemble(mk(ids), v2).MerkleRoot()) {
			t.Fatalf("receipts root not deterministic")
		}
		classes := []string{fmt.Sprintf("v2=%v", v2)}
		withEvents := false
		for _, r := range rs.Get() {
			if len(r.Events) > 0 {
				withEvents = true
			}
		}
		if withEvents {
			classes = append(classes, "with-events+bloom")
		}
		// (1) list operations
		mids, kind := c19ApplyListOp(t, n, fresh, ids)
		if !reflect.DeepEqual(ids, mids) {
			mroot := c19Assemble(mk(mids), v2).MerkleRoot()
			if bytes.Equal(root, mroot) {
				// with a bloom filter appended as last entry trailing duplicates of receipts do not collide,
				// without events they can
				if c19IsTrailingDup(ids, mids) && rec.IsKnown("merkle-trailing-duplicate") {
					rec.Excluded("merkle-trailing-duplicate")
				} else {
					t.Fatalf("receipts root unchanged by list op %s: %v -> %v", kind, ids, mids)
				}
			}
		}
		classes = append(classes, "op:"+kind)
		// (2) single-field mutation of one receipt
		i := rapid.IntRange(0, n-1).Draw(t, "ri")
		ml := mk(ids)
		ml[i] = c19CloneReceipt(ml[i])
		f := c19MutateReceipt(t, ml[i], v2)
		mroot := c19Assemble(ml, v2).MerkleRoot()
		if bytes.Equal(root, mroot) {
			t.Fatalf("receipts root (v2=%v) does not commit to field %s of receipt %d", v2, f, i)
		}
		classes = append(classes, "field:"+f)
		// (3) storage round trip
		bin, err := rs.MarshalBinary()
		if err != nil {
			t.Fatalf("MarshalBinary: %v", err)
		}
		back := &Receipts{}
		back.SetHardFork(rs.hardForkConfig, rs.blockNo)
		func() {
			defer func() {
				if p := recover(); p != nil {
					t.Fatalf("UnmarshalBinary panicked on MarshalBinary output: %v", p)
				}
			}()
			if err := back.UnmarshalBinary(bin); err != nil {
				t.Fatalf("UnmarshalBinary: %v", err)
			}
		}()
		if len(back.Get()) != len(rs.Get()) {
			t.Fatalf("round trip: %d receipts became %d", len(rs.Get()), len(back.Get()))
		}
		for k := range rs.Get() {
			if d := c19ReceiptEq(rs.Get()[k], back.Get()[k], v2); d != "" {
				t.Fatalf("round trip (v2=%v): receipt %d differs in %s", v2, k, d)
			}
		}
		if (rs.bloom == nil) != (back.bloom == nil) {
			t.Fatalf("round trip: block bloom presence changed")
		}
		if rs.bloom != nil {
			a, _ := (*bloom.BloomFilter)(rs.bloom).GobEncode()
			b, _ := (*bloom.BloomFilter)(back.bloom).GobEncode()
			if !bytes.Equal(a, b) {
				t.Fatalf("round trip: block bloom filter changed")
			}
		}
		bin2, _ := back.MarshalBinary()
		if !bytes.Equal(bin, bin2) {
			t.Fatalf("round trip: re-encoding differs")
		}
		sort.Strings(classes)
		rec.Case(strings.Join(classes, ","), fmt.Sprintf("%x|%v|%s|%s", root, mids, f, kind), n >= 3 || withEvents, func() interface{} {
			return map[string]interface{}{"v2": v2, "receipts": n, "with_events": withEvents, "list_op": kind, "mutated_field": f, "encoded_bytes": len(bin)}
		})
	})
}

// ---- chain id and genesis -------------------------------------------------------------------

func TestC19ChainID(t *testing.T) {
	rec := ev.New("C19", "chainid-genesis")
	defer rec.Flush()
	rapid.Check(t, func(t *rapid.T) {
		// the magic is free text of the genesis file (the separator of the encoding, '/', included); whatever Bytes
		// agrees to write must read back
		magic := rapid.StringMatching(`[a-zA-Z0-9._\-/]{0,12}`)
		cid := ChainID{Version: int32(rapid.IntRange(0, 1<<20).Draw(t, "version")), PublicNet: rapid.Bool().Draw(t, "public"), MainNet: rapid.Bool().Draw(t, "mainnet"),
			Magic: magic.Draw(t, "magic"), Consensus: rapid.SampledFrom([]string{"dpos", "raft", "sbp", ""}).Draw(t, "consensus")}
		b, err := cid.Bytes()
		if err != nil {
			if !strings.Contains(cid.Magic, "/") {
				t.Fatalf("Bytes: %v", err)
			}
			rec.Case("refused-to-write", fmt.Sprintf("%+v", cid), false, nil)
			return
		}
		var back ChainID
		if err := back.Read(b); err != nil {
			t.Fatalf("Read(Bytes(%+v)): %v", cid, err)
		}
		if back != cid {
			t.Fatalf("chain id round trip: wrote %+v read %+v", cid, back)
		}
		// version codec and MakeChainId keep everything but the version
		nv := int32(rapid.IntRange(0, 1<<20).Draw(t, "newversion"))
		if DecodeChainIdVersion(b) != cid.Version {
			t.Fatalf("DecodeChainIdVersion = %d want %d", DecodeChainIdVersion(b), cid.Version)
		}
		nb := MakeChainId(b, nv)
		var re ChainID
		if err := re.Read(nb); err != nil {
			t.Fatal(err)
		}
		want := cid
		want.Version = nv
		if re != want {
			t.Fatalf("MakeChainId(%+v, %d) decodes to %+v", cid, nv, re)
		}
		if !ChainIdEqualWithoutVersion(b, nb) {
			t.Fatalf("ChainIdEqualWithoutVersion false for ids differing only in version")
		}
		// any single-field change gives different bytes
		m := cid
		fld := rapid.SampledFrom([]string{"Version", "PublicNet", "MainNet", "Magic", "Consensus"}).Draw(t, "cfield")
		switch fld {
		case "Version":
			m.Version++
		case "PublicNet":
			m.PublicNet = !m.PublicNet
		case "MainNet":
			m.MainNet = !m.MainNet
		case "Magic":
			m.Magic += "x"
		case "Consensus":
			m.Consensus += "x"
		}
		mb, _ := m.Bytes()
		if bytes.Equal(mb, b) {
			t.Fatalf("chain id bytes unchanged after changing %s", fld)
		}
		if fld != "Version" && ChainIdEqualWithoutVersion(b, mb) {
			t.Fatalf("ChainIdEqualWithoutVersion true although %s differs", fld)
		}
		// genesis round trip
		g := &Genesis{ID: cid, Timestamp: rapid.Int64().Draw(t, "gts"), Balance: map[string]string{}, BPs: []string{}}
		nb2 := rapid.IntRange(0, 3).Draw(t, "nbal")
		for i := 0; i < nb2; i++ {
			g.Balance[rapid.StringMatching(`[A-Za-z0-9]{5,10}`).Draw(t, "baddr")] = fmt.Sprint(rapid.Uint64().Draw(t, "bamount"))
		}
		nbp := rapid.IntRange(0, 3).Draw(t, "nbp")
		for i := 0; i < nbp; i++ {
			g.BPs = append(g.BPs, rapid.StringMatching(`16Uiu2[A-Za-z0-9]{10}`).Draw(t, "bp"))
		}
		if rapid.Bool().Draw(t, "enterprise") {
			g.EnterpriseBPs = []EnterpriseBP{{Name: "n1", Address: "/ip4/1.2.3.4/tcp/1", PeerID: "16Uiu2abc"}}
		}
		gb := g.Bytes()
		g2 := GetGenesisFromBytes(gb)
		if g2 == nil {
			t.Fatalf("GetGenesisFromBytes(Bytes(g)) == nil")
		}
		if g2.ID != g.ID || g2.Timestamp != g.Timestamp || !reflect.DeepEqual(g2.BPs, g.BPs) && !(len(g2.BPs) == 0 && len(g.BPs) == 0) ||
			len(g2.Balance) != 0 || // Bytes() omits the initial balances by design (documented in the code)
			!reflect.DeepEqual(g2.EnterpriseBPs, g.EnterpriseBPs) && !(len(g2.EnterpriseBPs) == 0 && len(g.EnterpriseBPs) == 0) {
			t.Fatalf("genesis round trip: wrote %+v read %+v", g, g2)
		}
		rec.Case("cfield:"+fld, fmt.Sprintf("%x|%s", b, fld), cid.Magic != "" && cid.Consensus != "", func() interface{} {
			return map[string]interface{}{"chain_id": fmt.Sprintf("%+v", cid), "bytes": fmt.Sprintf("%x", b), "mutated_field": fld, "genesis_bytes": len(gb)}
		})
	})
}

// TestC19Regression: the Merkle trailing-duplicate ambiguity, hand-written.
func TestC19Regression(t *testing.T) {
	rec := ev.New("C19", "regression")
	defer rec.Flush()
	mk := func(n byte) *Tx {
		tx := &Tx{Body: &TxBody{Nonce: uint64(n), Account: []byte{n}}}
		tx.Hash = tx.CalculateTxHash()
		return tx
	}
	a, b, c := mk(1), mk(2), mk(3)
	r1 := CalculateTxsRootHash([]*Tx{a, b, c})
	r2 := CalculateTxsRootHash([]*Tx{a, b, c, c})
	rec.Case("regression", "abc-vs-abcc", true, func() interface{} { return "tx lists [a,b,c] and [a,b,c,c]" })
	rec.Case("regression", "abc-vs-abcc-2", true, func() interface{} { return "tx lists [a,b,c] and [a,b,c,c] (second fingerprint)" })
	if bytes.Equal(r1, r2) {
		if rec.IsKnown("merkle-trailing-duplicate") {
			rec.Excluded("merkle-trailing-duplicate")
			return
		}
		t.Fatalf("tx root of [a,b,c] equals tx root of [a,b,c,c]: %x", r1)
	}
}
