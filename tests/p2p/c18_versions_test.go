//go:build verif

package p2p

// C18 (b2) — handshake strictness for EVERY protocol version the node accepts. The version of the status exchange
// is chosen by the remote side (inbound: the versions it offers; outbound: its answer), so the clause "a handshake
// succeeds only with a peer that presents the same genesis block, a compatible chain identifier and the peer
// identity of the connection" has to hold for each entry of p2pcommon.AcceptedInboundVersions. The handshaker is
// the one the node's real version manager hands out for the drawn version; the remote status is framed onto a
// byte stream; the few interfaces consumed are hand-written fakes.

import (
	"bytes"
	"context"
	"fmt"
	"io"
	"testing"

	"github.com/aergoio/aergo-lib/log"
	"github.com/aergoio/aergo/v2/chain"
	"github.com/aergoio/aergo/v2/p2p/p2pcommon"
	"github.com/aergoio/aergo/v2/p2p/p2putil"
	v030 "github.com/aergoio/aergo/v2/p2p/v030"
	"github.com/aergoio/aergo/v2/types"
	"github.com/aergoio/aergo/v2/verifx/ev"
	"pgregory.net/rapid"
)

type c18vConn struct {
	io.Reader
	io.Writer
}

func (c18vConn) Close() error { return nil }

type c18vCA struct {
	types.ChainAccessor
	best *types.Block
	cid  types.ChainID
}

func (c c18vCA) GetBestBlock() (*types.Block, error) { return c.best, nil }
func (c c18vCA) ChainID(no types.BlockNo) *types.ChainID {
	x := c.cid
	return &x
}

type c18vIS struct {
	p2pcommon.InternalService
	meta p2pcommon.PeerMeta
	ca   c18vCA
}

func (s c18vIS) SelfMeta() p2pcommon.PeerMeta                      { return s.meta }
func (s c18vIS) GetChainAccessor() types.ChainAccessor             { return s.ca }
func (s c18vIS) CertificateManager() p2pcommon.CertificateManager { return nil }

type c18vPM struct {
	p2pcommon.PeerManager
	meta p2pcommon.PeerMeta
}

func (p c18vPM) SelfMeta() p2pcommon.PeerMeta { return p.meta }

type c18vActor struct {
	p2pcommon.ActorService
	ca c18vCA
}

func (a c18vActor) GetChainAccessor() types.ChainAccessor { return a.ca }

func TestC18HandshakeVersions(t *testing.T) {
	rec := ev.New("C18", "handshake-versions")
	defer rec.Flush()
	logger := log.NewLogger("c18v")
	oldGenesis := chain.Genesis
	defer func() { chain.Genesis = oldGenesis }()
	rapid.Check(t, func(t *rapid.T) {
		cid := types.ChainID{
			Magic:     rapid.SampledFrom([]string{"c18.aergo.io", "dev.chain", "x"}).Draw(t, "magic"),
			Consensus: rapid.SampledFrom([]string{"dpos", "raft", "sbp"}).Draw(t, "consensus"),
			PublicNet: rapid.Bool().Draw(t, "public"),
			MainNet:   rapid.Bool().Draw(t, "mainnet"),
		}
		// the local genesis block (its hash is what the node compares with)
		g := &types.Genesis{ID: cid, Timestamp: int64(rapid.IntRange(1, 1<<40).Draw(t, "genesisTs"))}
		chain.Genesis = g
		genesis := g.Block().BlockHash()
		g.Block().Hash = genesis
		height := uint64(rapid.IntRange(0, 3500).Draw(t, "height"))
		bestHash := bytes.Repeat([]byte{0x11}, 32)
		remoteID := types.RandomPeerID()
		otherID := types.RandomPeerID()
		selfMeta := p2pcommon.NewMetaWith1Addr(types.RandomPeerID(), "192.168.0.9", 7846, "v2.0.0")
		ca := c18vCA{best: &types.Block{Hash: bestHash, Header: &types.BlockHeader{BlockNo: height}}, cid: cid}
		vm := newDefaultVersionManager(c18vIS{meta: selfMeta, ca: ca}, c18vActor{ca: ca}, c18vPM{meta: selfMeta}, ca, logger, &cid)

		version := rapid.SampledFrom(p2pcommon.AcceptedInboundVersions).Draw(t, "version")
		cidBytes := func(mut func(c *types.ChainID)) []byte {
			c := cid
			if mut != nil {
				mut(&c)
			}
			b, err := c.Bytes()
			if err != nil {
				t.Fatalf("chain id bytes: %v", err)
			}
			return b
		}
		addr := p2pcommon.NewMetaWith1Addr(remoteID, "192.168.0.7", 7846, "v2.0.0").ToPeerAddress()
		st := &types.Status{ChainID: cidBytes(nil), Sender: &addr, Genesis: append([]byte{}, genesis...), BestBlockHash: append([]byte{}, bestHash...), BestHeight: height, Version: "v2.0.0"}
		field := rapid.SampledFrom([]string{"none", "none", "genesis-bit", "genesis-other-chain", "genesis-empty", "peerid", "chainid-magic", "chainid-consensus", "chainid-public", "chainid-mainnet", "chainid-garbage", "sender-nil"}).Draw(t, "field")
		accept := false
		switch field {
		case "none":
			accept = true
		case "genesis-bit":
			st.Genesis[rapid.IntRange(0, 31).Draw(t, "gpos")] ^= byte(1 << uint(rapid.IntRange(0, 7).Draw(t, "gbit")))
		case "genesis-other-chain":
			// the genesis block of a chain with the same chain id that was created at another time
			other := &types.Genesis{ID: cid, Timestamp: g.Timestamp + 1}
			st.Genesis = other.Block().BlockHash()
		case "genesis-empty":
			st.Genesis = nil
		case "peerid":
			st.Sender.PeerID = []byte(otherID)
		case "chainid-magic":
			st.ChainID = cidBytes(func(c *types.ChainID) { c.Magic += "x" })
		case "chainid-consensus":
			st.ChainID = cidBytes(func(c *types.ChainID) {
				c.Consensus = map[string]string{"dpos": "raft", "raft": "sbp", "sbp": "dpos"}[c.Consensus]
			})
		case "chainid-public":
			st.ChainID = cidBytes(func(c *types.ChainID) { c.PublicNet = !c.PublicNet })
		case "chainid-mainnet":
			st.ChainID = cidBytes(func(c *types.ChainID) { c.MainNet = !c.MainNet })
		case "chainid-garbage":
			st.ChainID = rapid.SliceOfN(rapid.Byte(), 0, 12).Draw(t, "cidGarbage")
		case "sender-nil":
			st.Sender = nil
		}
		inbound := rapid.Bool().Draw(t, "inbound")
		wire := &bytes.Buffer{}
		payload, err := p2putil.MarshalMessageBody(st)
		if err != nil {
			t.Fatal(err)
		}
		if err := v030.NewV030ReadWriter(nil, wire, nil).WriteMsg(p2pcommon.NewMessageValue(p2pcommon.StatusRequest, p2pcommon.NewMsgID(), p2pcommon.EmptyID, 1, payload)); err != nil {
			t.Fatal(err)
		}
		answer := &bytes.Buffer{}
		h, err := vm.GetVersionedHandshaker(version, remoteID, c18vConn{bytes.NewReader(wire.Bytes()), answer})
		if err != nil {
			t.Fatalf("the version manager has no handshaker for the accepted version %v: %v", version, err)
		}
		var res *p2pcommon.HandshakeResult
		func() {
			defer func() {
				if p := recover(); p != nil {
					t.Fatalf("handshake (version %v) panicked on a status differing in %s: %v", version, field, p)
				}
			}()
			if inbound {
				res, err = h.DoForInbound(context.Background())
			} else {
				res, err = h.DoForOutbound(context.Background())
			}
		}()
		desc := fmt.Sprintf("version %v chain %+v height %d field=%s inbound=%v", version, cid, height, field, inbound)
		if accept {
			if err != nil || res == nil {
				t.Fatalf("handshake with a matching status failed: %v\n%s", err, desc)
			}
		} else if err == nil || res != nil {
			if version == p2pcommon.P2PVersion031 && (field == "genesis-bit" || field == "genesis-other-chain" || field == "genesis-empty") && rec.IsKnown("handshake-0.3.1-ignores-genesis") {
				rec.Excluded("handshake-0.3.1-ignores-genesis")
			} else {
				t.Fatalf("handshake SUCCEEDED with a peer whose status differs in %s\n%s", field, desc)
			}
		}
		rec.Case(fmt.Sprintf("%v/%s", version, field), desc, field != "none", func() interface{} { return desc })
	})
}
