//go:build verif

package v200

// C18 (b) — handshake strictness. The local status message of a generated chain (chain id with
// drawn magic / consensus / public / main-net flags and a version schedule, genesis hash, peer
// identity) is accepted; a remote status that differs from it in exactly one generated field is
// refused (error, no result, answered by GoAway and never by a status). The remote status is
// really framed onto a byte stream and the real V200 handshaker runs DoForInbound /
// DoForOutbound on it; the few interfaces it consumes are hand-written fakes.

import (
	"bytes"
	"context"
	"fmt"
	"io"
	"testing"

	"github.com/aergoio/aergo-lib/log"
	"github.com/aergoio/aergo/v2/p2p/p2pcommon"
	"github.com/aergoio/aergo/v2/p2p/p2putil"
	v030 "github.com/aergoio/aergo/v2/p2p/v030"
	"github.com/aergoio/aergo/v2/types"
	"github.com/aergoio/aergo/v2/verifx/ev"
	"pgregory.net/rapid"
)

type c18Conn struct {
	io.Reader
	io.Writer
}

func (c18Conn) Close() error { return nil }

type c18VM struct {
	p2pcommon.VersionedManager
	cid   types.ChainID
	forks [3]uint64 // heights at which versions 1,2,3 start
}

func (v c18VM) GetChainID(no types.BlockNo) *types.ChainID {
	c := v.cid
	c.Version = 0
	for i, h := range v.forks {
		if no >= h {
			c.Version = int32(i + 1)
		}
	}
	return &c
}
func (v c18VM) GetBestChainID() *types.ChainID { return v.GetChainID(1 << 60) }

type c18CA struct {
	types.ChainAccessor
	best *types.Block
}

func (c c18CA) GetBestBlock() (*types.Block, error) { return c.best, nil }

type c18IS struct {
	p2pcommon.InternalService
	meta p2pcommon.PeerMeta
	ca   c18CA
}

func (s c18IS) SelfMeta() p2pcommon.PeerMeta          { return s.meta }
func (s c18IS) GetChainAccessor() types.ChainAccessor { return s.ca }

func TestC18Handshake(t *testing.T) {
	rec := ev.New("C18", "handshake")
	defer rec.Flush()
	logger := log.NewLogger("c18")
	rapid.Check(t, func(t *rapid.T) {
		cid := types.ChainID{
			Magic:     rapid.SampledFrom([]string{"c18.aergo.io", "dev.chain", "x"}).Draw(t, "magic"),
			Consensus: rapid.SampledFrom([]string{"dpos", "raft", "sbp"}).Draw(t, "consensus"),
			PublicNet: rapid.Bool().Draw(t, "public"),
			MainNet:   rapid.Bool().Draw(t, "mainnet"),
		}
		f1 := uint64(rapid.IntRange(0, 1000).Draw(t, "f1"))
		f2 := f1 + uint64(rapid.IntRange(0, 1000).Draw(t, "f2"))
		f3 := f2 + uint64(rapid.IntRange(0, 1000).Draw(t, "f3"))
		vm := c18VM{cid: cid, forks: [3]uint64{f1, f2, f3}}
		localHeight := uint64(rapid.IntRange(0, 3500).Draw(t, "localHeight"))
		remoteHeight := uint64(rapid.IntRange(0, 3500).Draw(t, "remoteHeight"))
		genesis := bytes.Repeat([]byte{byte(rapid.IntRange(1, 250).Draw(t, "gen"))}, 32)
		bestHash := bytes.Repeat([]byte{0x11}, 32)
		remoteID := types.RandomPeerID()
		otherID := types.RandomPeerID()
		selfMeta := p2pcommon.NewMetaWith1Addr(types.RandomPeerID(), "192.168.0.9", 7846, "v2.0.0")
		is := c18IS{meta: selfMeta, ca: c18CA{best: &types.Block{Hash: bestHash, Header: &types.BlockHeader{BlockNo: localHeight}}}}

		cidBytes := func(mut func(c *types.ChainID)) []byte {
			c := *vm.GetChainID(remoteHeight)
			if mut != nil {
				mut(&c)
			}
			b, err := c.Bytes()
			if err != nil {
				t.Fatalf("chain id bytes: %v", err)
			}
			return b
		}
		addr := p2pcommon.NewMetaWith1Addr(remoteID, "192.168.0.7", 7846, "v2.0.0").ToPeerAddress()
		st := &types.Status{ChainID: cidBytes(nil), Sender: &addr, Genesis: append([]byte{}, genesis...), BestBlockHash: append([]byte{}, bestHash...), BestHeight: remoteHeight, Version: "v2.0.0"}
		field := rapid.SampledFrom([]string{"none", "none", "genesis-bit", "genesis-truncated", "genesis-empty", "peerid", "chainid-version", "chainid-magic", "chainid-consensus", "chainid-public", "chainid-mainnet",
			"chainid-garbage", "sender-nil", "besthash-short", "height-other-version"}).Draw(t, "field")
		accept := false
		switch field {
		case "none":
			accept = true
		case "genesis-bit":
			st.Genesis[rapid.IntRange(0, 31).Draw(t, "gpos")] ^= byte(1 << uint(rapid.IntRange(0, 7).Draw(t, "gbit")))
		case "genesis-truncated":
			st.Genesis = st.Genesis[:31]
		case "genesis-empty":
			st.Genesis = nil
		case "peerid":
			st.Sender.PeerID = []byte(otherID)
		case "chainid-version":
			st.ChainID = cidBytes(func(c *types.ChainID) { c.Version += int32(rapid.SampledFrom([]int{1, -1, 7}).Draw(t, "dv")) })
		case "chainid-magic":
			st.ChainID = cidBytes(func(c *types.ChainID) { c.Magic += "x" })
		case "chainid-consensus":
			st.ChainID = cidBytes(func(c *types.ChainID) {
				c.Consensus = map[string]string{"dpos": "raft", "raft": "sbp", "sbp": "dpos"}[c.Consensus]
			})
		case "chainid-public":
			st.ChainID = cidBytes(func(c *types.ChainID) { c.PublicNet = !c.PublicNet })
		case "chainid-mainnet":
			st.ChainID = cidBytes(func(c *types.ChainID) { c.MainNet = !c.MainNet })
		case "chainid-garbage":
			st.ChainID = rapid.SliceOfN(rapid.Byte(), 0, 12).Draw(t, "cidGarbage")
		case "sender-nil":
			st.Sender = nil
		case "besthash-short":
			st.BestBlockHash = st.BestBlockHash[:rapid.IntRange(0, 31).Draw(t, "hlen")]
		case "height-other-version":
			// the announced height belongs to another fork version than the chain id that is sent
			other := uint64(0)
			found := false
			for _, h := range []uint64{0, f1, f2, f3, f3 + 10} {
				if vm.GetChainID(h).Version != vm.GetChainID(remoteHeight).Version {
					other, found = h, true
				}
			}
			if !found {
				accept = true // all heights share one version: nothing differs
			} else {
				st.BestHeight = other
			}
		}
		inbound := rapid.Bool().Draw(t, "inbound")
		wire := &bytes.Buffer{}
		payload, err := p2putil.MarshalMessageBody(st)
		if err != nil {
			t.Fatal(err)
		}
		remoteRW := v030.NewV030ReadWriter(nil, wire, nil)
		if err := remoteRW.WriteMsg(p2pcommon.NewMessageValue(p2pcommon.StatusRequest, p2pcommon.NewMsgID(), p2pcommon.EmptyID, 1, payload)); err != nil {
			t.Fatal(err)
		}
		answer := &bytes.Buffer{}
		h := NewV200VersionedHS(is, logger, vm, nil, remoteID, c18Conn{bytes.NewReader(wire.Bytes()), answer}, genesis)
		var res *p2pcommon.HandshakeResult
		func() {
			defer func() {
				if p := recover(); p != nil {
					t.Fatalf("handshake panicked on a status differing in %s: %v", field, p)
				}
			}()
			if inbound {
				res, err = h.DoForInbound(context.Background())
			} else {
				res, err = h.DoForOutbound(context.Background())
			}
		}()
		var answered []p2pcommon.SubProtocol
		rd := v030.NewV030ReadWriter(bytes.NewReader(answer.Bytes()), io.Discard, nil)
		for {
			m, rerr := rd.ReadMsg()
			if rerr != nil {
				break
			}
			answered = append(answered, m.Subprotocol())
		}
		desc := fmt.Sprintf("chain %+v forks %v local height %d remote height %d field=%s inbound=%v", cid, vm.forks, localHeight, remoteHeight, field, inbound)
		if accept {
			if err != nil || res == nil {
				t.Fatalf("handshake with a matching status failed: %v\n%s", err, desc)
			}
		} else {
			if err == nil || res != nil {
				t.Fatalf("handshake SUCCEEDED with a peer whose status differs in %s (answered %v)\n%s", field, answered, desc)
			}
			sawGoAway := false
			for i, a := range answered {
				if a == p2pcommon.GoAway {
					sawGoAway = true
				}
				if inbound && a == p2pcommon.StatusRequest {
					t.Fatalf("refused inbound handshake was answered with a status message (message %d)\n%s", i, desc)
				}
			}
			if !sawGoAway {
				t.Fatalf("refused handshake was not answered by GoAway (answered %v)\n%s", answered, desc)
			}
		}
		rec.Case(field, desc, field != "none", func() interface{} { return desc })
	})
}
