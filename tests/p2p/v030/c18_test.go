//go:build verif

package v030

// C18 (a) — wire framing. Round trip of message SEQUENCES through one writer and one reader
// (every field of every message must come back: sub-protocol, length, timestamp, id, original
// id, payload), the payload limit on both sides, and totality / bounded allocation of ReadMsg on
// arbitrary byte streams (random bytes, valid streams truncated at every offset, headers that
// announce huge lengths).

import (
	"bytes"
	"encoding/binary"
	"fmt"
	"io"
	"runtime"
	"strings"
	"testing"

	"github.com/aergoio/aergo/v2/p2p/p2pcommon"
	"github.com/aergoio/aergo/v2/verifx/ev"
	"pgregory.net/rapid"
)

type nopCloser struct{}

func (nopCloser) Close() error { return nil }

var c18Protocols = []p2pcommon.SubProtocol{p2pcommon.StatusRequest, p2pcommon.PingRequest, p2pcommon.PingResponse, p2pcommon.GoAway, p2pcommon.AddressesRequest, p2pcommon.AddressesResponse,
	p2pcommon.GetBlocksRequest, p2pcommon.GetBlocksResponse, p2pcommon.GetBlockHeadersRequest, p2pcommon.GetBlockHeadersResponse, p2pcommon.NewBlockNotice, p2pcommon.GetAncestorRequest, p2pcommon.GetAncestorResponse,
	p2pcommon.GetHashesRequest, p2pcommon.GetHashesResponse, p2pcommon.GetTXsRequest, p2pcommon.GetTXsResponse, p2pcommon.NewTxNotice,
	p2pcommon.BlockProducedNotice, p2pcommon.SubProtocol(0), p2pcommon.SubProtocol(0xffffffff), p2pcommon.SubProtocol(0x7777)}

func c18DrawID(t *rapid.T, label string) p2pcommon.MsgID {
	var id p2pcommon.MsgID
	switch rapid.IntRange(0, 3).Draw(t, label+"Kind") {
	case 0:
		return p2pcommon.EmptyID
	case 1:
		for i := range id {
			id[i] = 0xff
		}
	default:
		copy(id[:], rapid.SliceOfN(rapid.Byte(), 16, 16).Draw(t, label))
	}
	return id
}

func TestC18Framing(t *testing.T) {
	rec := ev.New("C18", "framing")
	defer rec.Flush()
	saved := p2pcommon.MaxPayloadLength
	defer func() { p2pcommon.MaxPayloadLength = saved }()
	rapid.Check(t, func(t *rapid.T) {
		limit := uint32(rapid.SampledFrom([]int{64, 4096, 70000}).Draw(t, "limit"))
		p2pcommon.MaxPayloadLength = limit
		var wire bytes.Buffer
		w := NewV030ReadWriter(nil, &wire, nopCloser{})
		n := rapid.IntRange(1, 6).Draw(t, "nmsgs")
		var sent []*p2pcommon.MessageValue
		var descs []string
		big := false
		for i := 0; i < n; i++ {
			size := rapid.SampledFrom([]int{0, 1, 47, 48, 49, 1500, int(limit) - 1, int(limit), int(limit) + 1}).Draw(t, "size")
			payload := make([]byte, size)
			for j := range payload {
				payload[j] = byte(j*7 + i)
			}
			m := p2pcommon.NewMessageValue(rapid.SampledFrom(c18Protocols).Draw(t, "proto"), c18DrawID(t, "id"), c18DrawID(t, "orig"),
				rapid.Int64().Draw(t, "ts"), payload)
			err := w.WriteMsg(m)
			if uint32(size) > limit {
				if err == nil {
					t.Fatalf("writer accepted a payload of %d bytes with a limit of %d", size, limit)
				}
				descs = append(descs, fmt.Sprintf("%d(refused)", size))
				continue
			}
			if err != nil {
				t.Fatalf("writer refused a payload of %d bytes (limit %d): %v", size, limit, err)
			}
			if size > 1024 {
				big = true
			}
			sent = append(sent, m)
			descs = append(descs, fmt.Sprintf("%v/%d/orig=%v", m.Subprotocol(), size, m.OriginalID() != p2pcommon.EmptyID))
		}
		stream := append([]byte{}, wire.Bytes()...)
		r := NewV030ReadWriter(bytes.NewReader(stream), nil, nopCloser{})
		for i, m := range sent {
			got, err := r.ReadMsg()
			if err != nil {
				t.Fatalf("message %d of %v could not be read back: %v", i, descs, err)
			}
			if got.Subprotocol() != m.Subprotocol() || got.Length() != m.Length() || got.Timestamp() != m.Timestamp() || got.ID() != m.ID() || got.OriginalID() != m.OriginalID() || !bytes.Equal(got.Payload(), m.Payload()) {
				t.Fatalf("message %d of %v read back differently: sent (proto %v len %d ts %d id %x orig %x) got (proto %v len %d ts %d id %x orig %x), payload equal=%v",
					i, descs, m.Subprotocol(), m.Length(), m.Timestamp(), m.ID(), m.OriginalID(), got.Subprotocol(), got.Length(), got.Timestamp(), got.ID(), got.OriginalID(), bytes.Equal(got.Payload(), m.Payload()))
			}
		}
		if _, err := r.ReadMsg(); err == nil {
			t.Fatalf("reader produced a message from an exhausted stream")
		}
		// truncation at a drawn offset: clean error, never a message beyond what is complete
		if len(stream) > 0 {
			cut := rapid.IntRange(0, len(stream)-1).Draw(t, "cut")
			tr := NewV030ReadWriter(bytes.NewReader(stream[:cut]), nil, nopCloser{})
			consumed := 0
			for i := 0; ; i++ {
				func() {
					defer func() {
						if p := recover(); p != nil {
							t.Fatalf("ReadMsg panicked on a stream truncated at %d: %v", cut, p)
						}
					}()
					got, err := tr.ReadMsg()
					if err != nil {
						i = -2
						return
					}
					consumed += msgHeaderLength + len(got.Payload())
					if consumed > cut {
						t.Fatalf("reader returned message %d from a stream truncated at offset %d (needs %d bytes)", i, cut, consumed)
					}
				}()
				if i < 0 {
					break
				}
			}
		}
		rec.Case(fmt.Sprintf("limit=%d", limit), fmt.Sprintf("%d|%s", limit, strings.Join(descs, ",")), big || len(sent) >= 2, func() interface{} { return descs })
	})
}

type countingReader struct {
	r io.Reader
	n int
}

func (c *countingReader) Read(p []byte) (int, error) {
	n, err := c.r.Read(p)
	c.n += n
	return n, err
}

func TestC18ReadBounded(t *testing.T) {
	rec := ev.New("C18", "readbounded")
	defer rec.Flush()
	saved := p2pcommon.MaxPayloadLength
	defer func() { p2pcommon.MaxPayloadLength = saved }()
	rapid.Check(t, func(t *rapid.T) {
		limit := uint32(rapid.SampledFrom([]int{64, 4096, 70000}).Draw(t, "limit"))
		p2pcommon.MaxPayloadLength = limit
		var stream []byte
		kind := rapid.SampledFrom([]string{"random", "huge-length", "limit+1", "limit-exact-short-body", "max-uint32"}).Draw(t, "kind")
		announced := uint32(0)
		switch kind {
		case "random":
			stream = rapid.SliceOfN(rapid.Byte(), 0, 200).Draw(t, "bytes")
			if len(stream) >= 8 {
				announced = binary.BigEndian.Uint32(stream[4:8])
			}
		default:
			hdr := make([]byte, msgHeaderLength)
			copy(hdr, rapid.SliceOfN(rapid.Byte(), msgHeaderLength, msgHeaderLength).Draw(t, "hdr"))
			switch kind {
			case "huge-length":
				announced = uint32(rapid.Uint32Range(limit+1, 1<<31).Draw(t, "len"))
			case "limit+1":
				announced = limit + 1
			case "limit-exact-short-body":
				announced = limit
			default:
				announced = 0xffffffff
			}
			binary.BigEndian.PutUint32(hdr[4:8], announced)
			stream = append(hdr, rapid.SliceOfN(rapid.Byte(), 0, 100).Draw(t, "body")...)
		}
		cr := &countingReader{r: bytes.NewReader(stream)}
		r := NewV030ReadWriter(cr, nil, nopCloser{})
		var ms0, ms1 runtime.MemStats
		runtime.ReadMemStats(&ms0)
		var msg p2pcommon.Message
		var err error
		func() {
			defer func() {
				if p := recover(); p != nil {
					t.Fatalf("ReadMsg panicked on %s stream %x: %v", kind, stream, p)
				}
			}()
			msg, err = r.ReadMsg()
		}()
		runtime.ReadMemStats(&ms1)
		alloc := ms1.TotalAlloc - ms0.TotalAlloc
		if announced > limit && len(stream) >= msgHeaderLength {
			if err == nil {
				t.Fatalf("a frame announcing %d payload bytes was read although the limit is %d", announced, limit)
			}
		}
		if err == nil {
			if uint32(len(msg.Payload())) > limit {
				t.Fatalf("ReadMsg returned %d payload bytes, limit %d", len(msg.Payload()), limit)
			}
			if len(stream) < msgHeaderLength+len(msg.Payload()) {
				t.Fatalf("ReadMsg returned a message longer than the stream")
			}
		}
		// bounded allocation: never more than the configured maximum payload (+ reader buffer and bookkeeping)
		if alloc > uint64(limit)+64*1024 {
			t.Fatalf("ReadMsg allocated %d bytes for a %s stream of %d bytes (announced %d), limit %d", alloc, kind, len(stream), announced, limit)
		}
		rec.Case(kind, fmt.Sprintf("%d|%s|%x", limit, kind, stream), kind != "random" || len(stream) >= msgHeaderLength, func() interface{} {
			return map[string]interface{}{"kind": kind, "limit": limit, "announced": announced, "stream_len": len(stream)}
		})
	})
}
