//go:build verif

package subproto

// C18 (allocation bound, request handlers). The framing layer bounds what reading a message may allocate by the
// configured maximum payload; a request handler must not undo that by sizing buffers with a number the remote peer
// wrote into the request. Generated GetBlockHeadersRequest / GetHashesRequest messages (by hash or by height, sizes
// from 0 to millions) are parsed from their wire form and handled by the real handlers over mocked chain access;
// oracle: the bytes allocated while handling stay below the configured maximum payload.

import (
	"fmt"
	"runtime"
	"testing"

	"github.com/aergoio/aergo-lib/log"
	"github.com/aergoio/aergo/v2/internal/enc/proto"
	"github.com/aergoio/aergo/v2/p2p/p2pcommon"
	"github.com/aergoio/aergo/v2/p2p/p2pmock"
	"github.com/aergoio/aergo/v2/types"
	"github.com/aergoio/aergo/v2/verifx/ev"
	"github.com/golang/mock/gomock"
	"pgregory.net/rapid"
)

func TestC18HandlerAllocation(t *testing.T) {
	rec := ev.New("C18", "handler-allocation")
	defer rec.Flush()
	logger := log.NewLogger("test.subproto")
	rapid.Check(t, func(rt *rapid.T) {
		ctrl := gomock.NewController(t)
		defer ctrl.Finish()
		mockPM := p2pmock.NewMockPeerManager(ctrl)
		mockPeer := p2pmock.NewMockRemotePeer(ctrl)
		mockActor := p2pmock.NewMockActorService(ctrl)
		mockCA := p2pmock.NewMockChainAccessor(ctrl)
		mockPeer.EXPECT().MF().Return(&testDoubleMOFactory{}).AnyTimes()
		mockPeer.EXPECT().ID().Return(types.RandomPeerID()).AnyTimes()
		mockPeer.EXPECT().Name().Return("remote").AnyTimes()
		mockPeer.EXPECT().SendMessage(gomock.Any()).AnyTimes()
		mockActor.EXPECT().GetChainAccessor().Return(mockCA).AnyTimes()
		mockActor.EXPECT().CallRequestDefaultTimeout(gomock.Any(), gomock.Any()).Return(nil, fmt.Errorf("no such block")).AnyTimes()
		mockCA.EXPECT().GetBlock(gomock.Any()).Return(nil, nil).AnyTimes()
		mockCA.EXPECT().GetHashByNo(gomock.Any()).Return(nil, fmt.Errorf("no such block")).AnyTimes()
		mockCA.EXPECT().GetBestBlock().Return(&types.Block{Header: &types.BlockHeader{BlockNo: 100}}, nil).AnyTimes()

		size := rapid.SampledFrom([]uint32{0, 1, 10, 1000, p2pcommon.MaxBlockHeaderResponseCount, p2pcommon.MaxBlockHeaderResponseCount + 1, 100000, 2000000, 3000000}).Draw(rt, "size")
		kind := rapid.SampledFrom([]string{"headers-by-hash", "headers-by-height", "hashes"}).Draw(rt, "kind")
		var wire []byte
		var err error
		var run func()
		msgID := p2pcommon.NewMsgID()
		switch kind {
		case "headers-by-hash", "headers-by-height":
			req := &types.GetBlockHeadersRequest{Size: size}
			if kind == "headers-by-hash" {
				req.Hash = make([]byte, 32)
			} else {
				req.Height = uint64(rapid.IntRange(0, 1000).Draw(rt, "height"))
			}
			wire, err = proto.Encode(req)
			h := NewGetBlockHeadersReqHandler(mockPM, mockPeer, logger, mockActor)
			body, perr := h.ParsePayload(wire)
			if err != nil || perr != nil {
				rt.Fatalf("encode/parse: %v %v", err, perr)
			}
			msg := &testMessage{subProtocol: p2pcommon.GetBlockHeadersRequest, id: msgID}
			run = func() { h.handleGetBlockHeaders(msg, body.(*types.GetBlockHeadersRequest)) }
		default:
			req := &types.GetHashesRequest{PrevHash: make([]byte, 32), PrevNumber: 5, Size: uint64(size)}
			wire, err = proto.Encode(req)
			h := NewGetHashesReqHandler(mockPM, mockPeer, logger, mockActor)
			body, perr := h.ParsePayload(wire)
			if err != nil || perr != nil {
				rt.Fatalf("encode/parse: %v %v", err, perr)
			}
			msg := &testMessage{subProtocol: p2pcommon.GetHashesRequest, id: msgID}
			run = func() { h.Handle(msg, body) }
		}
		var before, after runtime.MemStats
		runtime.GC()
		runtime.ReadMemStats(&before)
		run()
		runtime.ReadMemStats(&after)
		got := after.TotalAlloc - before.TotalAlloc
		if got > uint64(p2pcommon.MaxPayloadLength) {
			rt.Fatalf("handling a %d byte %s request (size field %d) allocated %d bytes, more than the configured maximum payload of %d", len(wire), kind, size, got, p2pcommon.MaxPayloadLength)
		}
		rec.Case(kind, fmt.Sprintf("%s|%d", kind, size), size > p2pcommon.MaxBlockHeaderResponseCount, func() interface{} {
			return map[string]interface{}{"request": kind, "size field": size, "wire bytes": len(wire), "allocated": got}
		})
	})
}
