//go:build verif

package p2p

// C18 (c2) — block announcements. "Content that does not hash to the announced identifier is discarded without
// affecting what the node will later accept": a peer announces a produced block whose announced identifier is the
// identifier of a genuine block the node has not seen yet, with other content (its own key in the header, so that it
// is entitled to send the notice); afterwards the genuine producer announces the genuine block. The notices go through
// the real blockProducedNoticeHandler and the real syncManager (its seen-blocks cache); the oracle is that the genuine
// block is handed to the chain service.

import (
	"bytes"
	"fmt"
	mrand "math/rand"
	"testing"

	"github.com/aergoio/aergo-lib/log"
	"github.com/aergoio/aergo/v2/chain"
	"github.com/aergoio/aergo/v2/p2p/p2pcommon"
	"github.com/aergoio/aergo/v2/p2p/subproto"
	"github.com/aergoio/aergo/v2/types"
	"github.com/aergoio/aergo/v2/types/message"
	"github.com/aergoio/aergo/v2/verifx/ev"
	"github.com/libp2p/go-libp2p/core/crypto"
	"pgregory.net/rapid"
)

type c18nPeer struct {
	p2pcommon.RemotePeer
	id   types.PeerID
	name string
}

func (p c18nPeer) ID() types.PeerID                                       { return p.id }
func (p c18nPeer) Name() string                                           { return p.name }
func (p c18nPeer) AcceptedRole() types.PeerRole                           { return types.PeerRole_Watcher }
func (p c18nPeer) RemoteInfo() p2pcommon.RemoteInfo                       { return p2pcommon.RemoteInfo{} }
func (p c18nPeer) UpdateLastNotice(h types.BlockID, no types.BlockNo)     {}
func (p c18nPeer) UpdateBlkCache(h types.BlockID, no types.BlockNo) bool { return false }

type c18nCA struct{ types.ChainAccessor }

func (c18nCA) GetBlock(hash []byte) (*types.Block, error) { return nil, fmt.Errorf("not found") }

type c18nActor struct {
	p2pcommon.ActorService
	added    *[]*types.Block
	requests *[][]byte
}

func (a c18nActor) SendRequest(name string, msg interface{}) {
	switch m := msg.(type) {
	case *message.AddBlock:
		*a.added = append(*a.added, m.Block)
	case *message.GetBlockInfos:
		for _, h := range m.Hashes {
			*a.requests = append(*a.requests, h)
		}
	}
}
func (a c18nActor) TellRequest(name string, msg interface{})       {}
func (a c18nActor) GetChainAccessor() types.ChainAccessor          { return c18nCA{} }

type c18nIS struct{ p2pcommon.InternalService }

func (c18nIS) LocalSettings() p2pcommon.LocalSettings { return p2pcommon.LocalSettings{} }

func TestC18BlockNotices(t *testing.T) {
	rec := ev.New("C18", "block-notices")
	defer rec.Flush()
	logger := log.NewLogger("c18n")
	// the node's configured block size limit (default configuration: 1 MiB body)
	if err := chain.Init(1<<20, "", false, 1, 1); err != nil {
		t.Fatal(err)
	}
	rapid.Check(t, func(t *rapid.T) {
		rnd := mrand.New(mrand.NewSource(int64(rapid.IntRange(1, 1<<30).Draw(t, "keySeed"))))
		newKey := func() (types.PeerID, []byte) {
			_, pub, err := crypto.GenerateKeyPairWithReader(crypto.Secp256k1, 256, rnd)
			if err != nil {
				t.Fatal(err)
			}
			id, err := types.IDFromPublicKey(pub)
			if err != nil {
				t.Fatal(err)
			}
			raw, err := crypto.MarshalPublicKey(pub)
			if err != nil {
				t.Fatal(err)
			}
			return id, raw
		}
		var added []*types.Block
		var requests [][]byte
		actor := c18nActor{added: &added, requests: &requests}
		sm := newSyncManager(actor, nil, logger)
		producerID, producerKey := newKey()
		no := uint64(rapid.IntRange(1, 1000).Draw(t, "no"))
		mkBlock := func(pub []byte, salt byte) *types.Block {
			b := &types.Block{Header: &types.BlockHeader{ChainID: []byte("c18"), PrevBlockHash: bytes.Repeat([]byte{salt}, 32), BlockNo: no, Timestamp: int64(no) * 1e9,
				BlocksRootHash: bytes.Repeat([]byte{salt + 1}, 32), PubKey: pub}, Body: &types.BlockBody{}}
			b.Hash = b.BlockHash()
			return b
		}
		genuine := mkBlock(producerKey, byte(rapid.IntRange(1, 200).Draw(t, "salt")))
		deliver := func(peer c18nPeer, b *types.Block) {
			h := subproto.NewBlockProducedNoticeHandler(c18nIS{}, nil, peer, logger, actor, sm)
			h.Handle(p2pcommon.NewSimpleMsgVal(p2pcommon.BlockProducedNotice, p2pcommon.NewMsgID()), &types.BlockProducedNotice{ProducerID: []byte(peer.id), BlockNo: b.GetHeader().GetBlockNo(), Block: b})
		}
		nforged := rapid.IntRange(0, 3).Draw(t, "forged")
		var kinds []string
		for i := 0; i < nforged; i++ {
			attackerID, attackerKey := newKey()
			kind := rapid.SampledFrom([]string{"own-content", "genuine-header-other-key", "oversized"}).Draw(t, "forgedKind")
			var f *types.Block
			switch kind {
			case "own-content":
				f = mkBlock(attackerKey, byte(201+i))
			case "genuine-header-other-key":
				f = mkBlock(attackerKey, genuine.Header.PrevBlockHash[0])
			default:
				f = mkBlock(attackerKey, byte(201+i))
				f.Body.Txs = []*types.Tx{{Hash: []byte{1}, Body: &types.TxBody{Payload: make([]byte, 3<<20)}}}
			}
			f.Hash = append([]byte{}, genuine.Hash...) // announced under the identifier of the genuine block
			if f.HasValidHash() {
				t.Fatalf("harness: the forged block hashes to the genuine identifier")
			}
			deliver(c18nPeer{id: attackerID, name: fmt.Sprintf("attacker%d", i)}, f)
			kinds = append(kinds, kind)
		}
		deliver(c18nPeer{id: producerID, name: "producer"}, genuine)
		got := false
		for _, b := range added {
			if b == genuine {
				got = true
			}
		}
		desc := fmt.Sprintf("block %d, forged notices before the genuine one: %v", no, kinds)
		if !got {
			t.Fatalf("the producer's notice of the genuine block was not handed to the chain service after %d notices that announced other content under its identifier (%v): %d blocks handed over, %d blocks requested", nforged, kinds, len(added), len(requests))
		}
		rec.Case(fmt.Sprintf("forged=%d", nforged), desc, nforged > 0, func() interface{} { return desc })
	})
}
