//go:build verif

package config

// C19 (hardfork versions): the version assigned to a height is monotone in the height for
// every valid configuration, starts at 0, and a configuration whose already-passed fork
// heights differ from the stored one is refused.

import (
	"fmt"
	"sort"
	"testing"

	"github.com/aergoio/aergo/v2/types"
	"github.com/aergoio/aergo/v2/verifx/ev"
	"pgregory.net/rapid"
)

func TestC19HardforkVersion(t *testing.T) {
	rec := ev.New("C19", "hardfork-version")
	defer rec.Flush()
	rapid.Check(t, func(t *rapid.T) {
		hs := rapid.SliceOfN(rapid.Uint64Range(0, 60), 4, 4).Draw(t, "heights")
		valid := rapid.IntRange(0, 4).Draw(t, "makeValid") > 0
		if valid {
			sort.Slice(hs, func(i, j int) bool { return hs[i] < hs[j] })
		}
		c := &HardforkConfig{V2: hs[0], V3: hs[1], V4: hs[2], V5: hs[3]}
		isSorted := sort.SliceIsSorted(hs, func(i, j int) bool { return hs[i] < hs[j] })
		if (c.validate() == nil) != isSorted {
			t.Fatalf("validate(%+v) = %v but sorted=%v", c, c.validate(), isSorted)
		}
		if !isSorted {
			rec.Case("invalid-config", fmt.Sprint(hs), false, nil)
			return
		}
		// independent definition: version(h) = 0 if h < V2, else the highest k with Vk <= h
		prev := int32(0)
		for h := types.BlockNo(0); h <= 64; h++ {
			want := int32(0)
			for i, fh := range hs {
				if fh <= h {
					want = int32(i + 2)
				}
			}
			got := c.Version(h)
			if got != want {
				t.Fatalf("Version(%d) = %d, want %d for %+v", h, got, want, c)
			}
			if got < prev {
				t.Fatalf("Version not monotone at %d: %d after %d", h, got, prev)
			}
			prev = got
			if c.IsV2Fork(h) != (want >= 2) || c.IsV3Fork(h) != (want >= 3) || c.IsV4Fork(h) != (want >= 4) || c.IsV5Fork(h) != (want >= 5) {
				t.Fatalf("IsVxFork(%d) inconsistent with Version=%d for %+v", h, want, c)
			}
		}
		// stored copy round trip and compatibility
		db := HardforkDbConfig{}.FixDbConfig(*c)
		best := types.BlockNo(rapid.Uint64Range(0, 64).Draw(t, "best"))
		if err := c.CheckCompatibility(db, best); err != nil {
			t.Fatalf("configuration incompatible with its own stored copy: %v", err)
		}
		// change one fork height
		k := rapid.IntRange(0, 3).Draw(t, "changed")
		nh := append([]uint64{}, hs...)
		nh[k] = rapid.Uint64Range(0, 60).Draw(t, "newheight")
		if nh[k] == hs[k] || !sort.SliceIsSorted(nh, func(i, j int) bool { return nh[i] < nh[j] }) {
			rec.Case("unchanged-or-unsorted", fmt.Sprint(hs, nh), false, nil)
			return
		}
		c2 := &HardforkConfig{V2: nh[0], V3: nh[1], V4: nh[2], V5: nh[3]}
		err := c2.CheckCompatibility(db, best)
		passedOld := hs[k] <= best
		passedNew := nh[k] <= best
		if (passedOld || passedNew) && err == nil {
			t.Fatalf("changing V%d from %d to %d was accepted although the chain is already at height %d", k+2, hs[k], nh[k], best)
		}
		if !passedOld && !passedNew && err != nil {
			t.Fatalf("changing a FUTURE fork height V%d %d->%d refused at height %d: %v", k+2, hs[k], nh[k], best, err)
		}
		// versions assigned to heights up to best are identical under an accepted configuration
		if err == nil {
			for h := types.BlockNo(0); h <= best; h++ {
				if c.Version(h) != c2.Version(h) {
					t.Fatalf("accepted configuration change alters Version(%d): %d -> %d", h, c.Version(h), c2.Version(h))
				}
			}
		}
		rec.Case(fmt.Sprintf("changedV%d,refused=%v", k+2, err != nil), fmt.Sprint(hs, nh, best), true, func() interface{} {
			return map[string]interface{}{"stored": hs, "new": nh, "best_height": best, "refused": err != nil}
		})
	})
}
