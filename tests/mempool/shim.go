//go:build verif

package mempool

// Exports for the verification harness (compiled only with -tags verif through the overlay).

import (
	"sort"
	"time"

	"github.com/aergoio/aergo/v2/chain"
	"github.com/aergoio/aergo/v2/config"
	"github.com/aergoio/aergo/v2/types"
)

// VerifNew builds a real pool over the chain service's state, positioned at block best,
// without starting its actor (operations are called synchronously by the harness).
func VerifNew(cfg *config.Config, cs *chain.ChainService, best *types.Block) *MemPool {
	mp := NewMemPoolService(cfg, cs)
	mp.setStateDB(best)
	return mp
}

func (mp *MemPool) VerifVerify(tx *types.Tx) (types.Transaction, error) {
	t := types.NewTransaction(tx)
	return t, mp.verifyTx(t)
}
func (mp *MemPool) VerifPut(t types.Transaction) error               { return mp.put(t) }
func (mp *MemPool) VerifGet(max uint32) ([]types.Transaction, error) { return mp.get(max) }
func (mp *MemPool) VerifExist(h []byte) *types.Tx                    { return mp.exist(h) }
func (mp *MemPool) VerifRemoveTx(tx *types.Tx) error                 { return mp.removeTx(tx) }
func (mp *MemPool) VerifOnBlock(b *types.Block) error                { return mp.removeOnBlockArrival(b) }
func (mp *MemPool) VerifAcceptChainIDHash() []byte                   { return mp.acceptChainIdHash }
func (mp *MemPool) VerifEvict()                                      { mp.evictTransactions() }
func VerifSetEvictPeriod(d time.Duration)                            { evictPeriod = d }

// VerifAge makes the account's list look idle for longer than the eviction period (what the passing of wall-clock
// time does in production), so that the next eviction run takes exactly the chosen accounts.
func (mp *MemPool) VerifAge(acc []byte) bool {
	mp.Lock()
	defer mp.Unlock()
	l, ok := mp.pool[types.ToAccountID(acc)]
	if !ok {
		return false
	}
	l.lastTime = time.Now().Add(-2*evictPeriod - time.Hour)
	return true
}

// VerifIsIdle reports whether the account's list has been idle for longer than the eviction period (by the list's own
// time stamp): such a list is what the next eviction run may take.
func (mp *MemPool) VerifIsIdle(acc []byte) bool {
	mp.RLock()
	defer mp.RUnlock()
	l, ok := mp.pool[types.ToAccountID(acc)]
	return ok && time.Since(l.lastTime) > evictPeriod
}

// VerifAdmit is the full admission path of a transaction received from a client or peer:
// signature / format verification, then validation and insertion.
func (mp *MemPool) VerifAdmit(tx *types.Tx) error {
	t := types.NewTransaction(tx)
	if err := mp.verifyTx(t); err != nil {
		return err
	}
	return mp.put(t)
}

// VerifAccountView is what the pool holds for one account.
type VerifAccountView struct {
	Account []byte
	Nonces  []uint64 // all held nonces in list order
	Hashes  [][]byte
	Ready   int
	Base    uint64 // state nonce the list is based on
}

// VerifView exposes the pool's bookkeeping: per-account lists, cache keys, counters.
func (mp *MemPool) VerifView() (accs []VerifAccountView, cache [][]byte, length, orphan int) {
	mp.RLock()
	defer mp.RUnlock()
	for _, l := range mp.pool {
		v := VerifAccountView{Account: l.account, Ready: l.ready, Base: l.base.Nonce}
		for _, tx := range l.list {
			v.Nonces = append(v.Nonces, tx.GetBody().GetNonce())
			v.Hashes = append(v.Hashes, tx.GetHash())
		}
		accs = append(accs, v)
	}
	sort.Slice(accs, func(i, j int) bool { return string(accs[i].Account) < string(accs[j].Account) })
	mp.cache.Range(func(k, v interface{}) bool {
		id := k.(types.TxID)
		cache = append(cache, append([]byte{}, id[:]...))
		return true
	})
	return accs, cache, mp.length, mp.orphan
}

func (mp *MemPool) VerifUnconfirmed() map[string][2]int {
	out := map[string][2]int{}
	for _, u := range mp.getUnconfirmed(nil, true) {
		out[u.Address] = [2]int{u.Pooled.Count, u.Orphaned.Count}
	}
	return out
}
