//go:build verif

package chain

// Exports for the verification harness (compiled only with -tags verif through the overlay).

import (
	"github.com/aergoio/aergo/v2/pkg/component"
	"github.com/aergoio/aergo-lib/db"
	"github.com/aergoio/aergo/v2/config"
	"github.com/aergoio/aergo/v2/state"
	"github.com/aergoio/aergo/v2/types"
	"github.com/aergoio/aergo/v2/types/dbkey"
)

// VerifSetUseMempool sets whether block signature verification asks the pool first.
func VerifSetUseMempool(b bool) { dfltUseMempool = b }

func (cs *ChainService) VerifAddBlock(b *types.Block, bs *state.BlockState, peer types.PeerID) error {
	return cs.addBlock(b, bs, peer)
}
func (cs *ChainService) VerifGetTx(h []byte) (*types.Tx, *types.TxIdx, error) { return cs.getTx(h) }
func (cs *ChainService) VerifGetReceipt(h []byte) (*types.Receipt, error)     { return cs.getReceipt(h) }
func (cs *ChainService) VerifGetReceipts(blockHash []byte) (*types.Receipts, error) {
	return cs.getReceipts(blockHash)
}
func (cs *ChainService) VerifChainStore() db.DB                { return cs.cdb.store }
func (cs *ChainService) VerifCfg() *config.Config              { return cs.cfg }
func (cs *ChainService) VerifHardfork() *config.HardforkConfig { return cs.cfg.Hardfork }
func (cs *ChainService) VerifLatestNo() types.BlockNo          { return cs.cdb.getBestBlockNo() }
func (cs *ChainService) VerifPersistedLatest() (types.BlockNo, bool) {
	b := cs.cdb.store.Get(dbkey.LatestBlock())
	if len(b) == 0 {
		return 0, false
	}
	return types.BlockNoFromBytes(b), true
}
func (cs *ChainService) VerifHasReorgMarker() bool {
	m, err := cs.cdb.getReorgMarker()
	return err != nil || m != nil
}
func (cs *ChainService) VerifPurgeErrBlocks()                  { cs.errBlocks.Purge() }
func (cs *ChainService) VerifIsOrphan(b *types.Block) bool     { return cs.isOrphan(b) }
func (cs *ChainService) VerifOrphanCount() int                 { return len(cs.op.cache) }
func (cs *ChainService) VerifVerifyBlock(b *types.Block) error { return cs.verifyBlock(b) }

// VerifSetStores replaces the key-value stores of the chain DB and the state DB (journaling
// wrappers for crash-point enumeration). Must be called right after the node is opened.
func (cs *ChainService) VerifSetChainStore(s db.DB) { cs.cdb.store = s }

// VerifDrainVerifier waits for a signature verification that is still in flight (its block was
// dropped before the result was consumed) so that the workers can be stopped without racing
// with them. Only used when a simulated node is shut down.
func (cs *ChainService) VerifDrainVerifier() {
	if cs.validator.isNeedWait {
		cs.validator.signVerifier.WaitDone()
		cs.validator.isNeedWait = false
	}
}

// VerifStop stops the workers and closes the databases.
func (cs *ChainService) VerifStop() {
	defer func() { recover() }()
	cs.VerifDrainVerifier()
	cs.chainManager.Stop()
	cs.chainWorker.Stop()
	// the signature-verifier workers are deliberately left parked (not Stop()ped): closing
	// their channels while a verification of a dropped block is still in flight would crash
	// the test process and hide the semantic outcome of the case
	cs.Close()
}

// VerifStopNoClose stops the workers but leaves the databases untouched (simulated crash).
func (cs *ChainService) VerifStopNoClose() {
	defer func() { recover() }()
	cs.chainManager.Stop()
	cs.chainWorker.Stop()
	cs.validator.Stop()
}

// VerifResetGlobals clears process-wide chain parameters between simulated nodes.
func VerifResetGlobals() {
	CoinbaseAccount = nil
	consensusName = ""
}

// VerifPlainBlockReward restores the undecorated block reward (coinbase only).
func VerifPlainBlockReward() { SendBlockReward = sendRewardCoinbase }

// VerifReexecute runs the validator-path executor on block against the CURRENT state root in
// verify-only mode (everything except the commit) and returns what it computed.
func (cs *ChainService) VerifReexecute(block *types.Block) (root []byte, receiptsBin []byte, receiptsRoot []byte, err error) {
	ex, err := newBlockExecutor(cs, nil, block, true)
	if err != nil {
		return nil, nil, nil, err
	}
	if err = ex.execute(); err != nil {
		return nil, nil, nil, err
	}
	receiptsBin, err = ex.BlockState.Receipts().MarshalBinary()
	if err != nil {
		return nil, nil, nil, err
	}
	return ex.BlockState.GetRoot(), receiptsBin, ex.BlockState.Receipts().MerkleRoot(), nil
}

// VerifRawReceipts reads the stored receipts of a block without the RPC-side decoration
// (memory info, address un-padding) that ChainService.getReceipts applies.
func (cs *ChainService) VerifRawReceipts(blockHash []byte, blockNo types.BlockNo) (*types.Receipts, error) {
	return cs.cdb.getReceipts(blockHash, blockNo, cs.cfg.Hardfork)
}

// VerifGetAnchors is what the node sends to a peer it wants to synchronise with (message.GetAnchors).
func (cs *ChainService) VerifGetAnchors() ([][]byte, types.BlockNo, error) {
	a, no, err := cs.getAnchorsNew()
	return [][]byte(a), no, err
}

// VerifFindAncestor is what the node answers to a peer's anchors (message.GetAncestor).
func (cs *ChainService) VerifFindAncestor(hashes [][]byte) (*types.BlockInfo, error) {
	return cs.findAncestor(hashes)
}

// VerifCheckHardforkAtStart does what a node start does up to and including the hardfork compatibility check on the
// stores under cfg.DataDir, then closes the stores again (the memorydb writes its content out on Close, so whatever
// was set is durable, as on a real store). Returns the verdict of the check.
func VerifCheckHardforkAtStart(cfg *config.Config) (err error) {
	core, err := NewCore(cfg.DbType, cfg.DataDir, cfg.EnableTestmode, 0, cfg.DB)
	if err != nil {
		return err
	}
	defer core.Close()
	cs := &ChainService{cfg: cfg, Core: core, op: NewOrphanPool(DfltOrphanPoolSize), stat: newStats()}
	if _, err := cs.initGenesis(nil, !cfg.UseTestnet, cfg.EnableTestmode); err != nil {
		return err
	}
	return cs.checkHardfork()
}

// VerifSignVerifyTx is the verdict of the block path's signature check for one transaction of a received block, with the
// pool short cut switched on as in a running node; comm answers the pool's existence query.
func (cs *ChainService) VerifSignVerifyTx(comm component.IComponentRequester, tx *types.Tx) (hit bool, err error) {
	sv := NewSignVerifier(comm, cs.sdb, 1, true)
	defer sv.Stop()
	return sv.verifyTx(comm, tx, true)
}
