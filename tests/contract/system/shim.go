//go:build verif

package system

import (
	"bytes"
	"fmt"
	"math/big"
	"reflect"

	"github.com/aergoio/aergo/v2/state/statedb"
	"github.com/aergoio/aergo/v2/types"
	"github.com/aergoio/aergo/v2/types/dbkey"
)

// VerifResetVPR drops the in-memory voting power ranking (a node without DPoS never builds one).
func VerifResetVPR() { votingPowerRank = nil }

// VerifHasVPR reports whether an in-memory ranking exists.
func VerifHasVPR() bool { return votingPowerRank != nil }

// VerifVPREqualsState compares the in-memory voting-power ranking with one rebuilt from the
// given system-contract state: total power, every voter's power and address, the ranking order,
// the bucket contents in order, and the reward winner picked for a set of seeds. The `lowest`
// cursor is not compared: among voters with equal power it depends on arrival order and is not
// read by anything. Returns (equal, memTotal, stateTotal).
func VerifVPREqualsState(scs *statedb.ContractState) (bool, *big.Int, *big.Int, error) {
	fresh, err := loadVpr(scs)
	if err != nil {
		return false, nil, nil, err
	}
	if votingPowerRank == nil {
		return fresh.getTotalPower().Sign() == 0, new(big.Int), fresh.getTotalPower(), nil
	}
	mem := votingPowerRank
	eq := mem.getTotalPower().Cmp(fresh.getTotalPower()) == 0 && mem.voters.equals(fresh.voters)
	if eq {
		for i := uint8(0); i < vprBucketsMax; i++ {
			a, b := mem.store.buckets[i], fresh.store.buckets[i]
			la, lb := 0, 0
			if a != nil {
				la = a.Len()
			}
			if b != nil {
				lb = b.Len()
			}
			if la != lb {
				eq = false
				break
			}
			if la == 0 {
				continue
			}
			for x, y := a.Front(), b.Front(); x != nil; x, y = x.Next(), y.Next() {
				if !reflect.DeepEqual(toVotingPower(x), toVotingPower(y)) {
					eq = false
				}
			}
		}
	}
	if eq {
		for seed := int64(0); seed < 24; seed++ {
			w1, e1 := mem.pickVotingRewardWinner(seed)
			w2, e2 := fresh.pickVotingRewardWinner(seed)
			if (e1 == nil) != (e2 == nil) || !bytes.Equal(w1, w2) {
				eq = false
			}
		}
	}
	return eq, mem.getTotalPower(), fresh.getTotalPower(), nil
}

// VerifVPRPending reports the number of not yet applied voting power changes.
func VerifVPRPending() int {
	if votingPowerRank == nil {
		return 0
	}
	return len(votingPowerRank.changes)
}

// VerifResetDefaultBpCount lets the next InitSystemParams set the default BP count again.
func VerifResetDefaultBpCount() { delete(DefaultParams, bpCount.ID()) }

// VerifVoteList returns the stored ranking (all entries) of the issue with the given id
// ("voteBP", "BPCOUNT", ...).
func VerifVoteList(scs *statedb.ContractState, id string) (*types.VoteList, error) {
	return getVoteResult(scs, VerifIssueKey(id), 1<<30)
}

// VerifIssueKey maps an issue id to its storage key.
func VerifIssueKey(id string) []byte {
	if id == types.OpvoteBP.ID() {
		return defaultVoteKey
	}
	return GenProposalKey(id)
}

// VerifIssueIDs lists all issue ids of the voting catalog.
func VerifIssueIDs() []string {
	var out []string
	for _, i := range GetVotingCatalog() {
		out = append(out, i.ID())
	}
	return out
}

// VerifVoteTotal returns the recorded total of a proposal-based issue.
func VerifVoteTotal(scs *statedb.ContractState, id string) *big.Int {
	data, _ := scs.GetData(dbkey.SystemVoteTotal(VerifIssueKey(id)))
	return new(big.Int).SetBytes(data)
}

// VerifVPRDescribe renders the in-memory ranking and the one rebuilt from state.
func VerifVPRDescribe(scs *statedb.ContractState) string {
	fresh, _ := loadVpr(scs)
	d := func(v *vpr) string {
		if v == nil {
			return "<nil>"
		}
		s := "total=" + v.getTotalPower().String() + " voters:"
		for _, k := range v.voters.members.Keys() {
			vp := k.(*votingPower)
			s += " " + vp.getID().String()[:6] + "=" + vp.getPower().String() + "(addr " + types.EncodeAddress(vp.getAddr())[:8] + ")"
		}
		s += " | map:"
		for id, vp := range v.voters.powers {
			s += " " + id.String()[:6] + "=" + vp.getPower().String()
		}
		s += " | buckets:"
		for i := uint8(0); i < vprBucketsMax; i++ {
			if l := v.store.buckets[i]; l != nil && l.Len() > 0 {
				for e := l.Front(); e != nil; e = e.Next() {
					s += " [" + big.NewInt(int64(i)).String() + "]" + toVotingPower(e).getID().String()[:6] + "=" + toVotingPower(e).getPower().String()
				}
			}
		}
		return s
	}
	return "memory: " + d(votingPowerRank) + "\nstate:  " + d(fresh)
}

// VerifParamsMatchState compares the ACTIVE system parameters of this process with what a node starting on the
// given state would load (loadParams). Returns a description of the first difference, or "".
func VerifParamsMatchState(g dataGetter) string {
	fresh := loadParams(g)
	for i := sysParamIndex(0); i < sysParamMax; i++ {
		id := i.ID()
		a, b := GetParam(id), fresh.getParam(id)
		if (a == nil) != (b == nil) || (a != nil && a.Cmp(b) != 0) {
			return fmt.Sprintf("%s: active value %v, value loaded from the state %v", id, a, b)
		}
	}
	return ""
}
