//go:build verif

package system

import (
	"math/big"

	"github.com/aergoio/aergo/v2/state/statedb"
)

// VerifResetVPR drops the in-memory voting power ranking (a node without DPoS never builds one).
func VerifResetVPR() { votingPowerRank = nil }

// VerifHasVPR reports whether an in-memory ranking exists.
func VerifHasVPR() bool { return votingPowerRank != nil }

// VerifVPREqualsState compares the in-memory voting-power ranking with one rebuilt from the
// given system-contract state. Returns (equal, memTotal, stateTotal).
func VerifVPREqualsState(scs *statedb.ContractState) (bool, *big.Int, *big.Int, error) {
	fresh, err := loadVpr(scs)
	if err != nil {
		return false, nil, nil, err
	}
	if votingPowerRank == nil {
		return fresh.getTotalPower().Sign() == 0, new(big.Int), fresh.getTotalPower(), nil
	}
	return votingPowerRank.equals(fresh), votingPowerRank.getTotalPower(), fresh.getTotalPower(), nil
}

// VerifVPRPending reports the number of not yet applied voting power changes.
func VerifVPRPending() int {
	if votingPowerRank == nil {
		return 0
	}
	return len(votingPowerRank.changes)
}

// VerifResetDefaultBpCount lets the next InitSystemParams set the default BP count again.
func VerifResetDefaultBpCount() { delete(DefaultParams, bpCount.ID()) }
