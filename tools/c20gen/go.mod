module c20tool
go 1.23.0
