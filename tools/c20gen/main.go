package main

import (
	"bytes"
	"fmt"
	"go/ast"
	"go/format"
	"go/parser"
	"go/token"
	"os"
	"path/filepath"
	"sort"
	"strings"
)

func main() {
	src, out := os.Args[1], os.Args[2]
	drop := map[string]bool{}
	for _, d := range strings.Split(os.Args[3], ",") {
		drop[d] = true
	}
	used := map[string]bool{}
	for _, f := range os.Args[4:] {
		fset := token.NewFileSet()
		af, err := parser.ParseFile(fset, filepath.Join(src, f), nil, parser.ParseComments)
		if err != nil {
			panic(err)
		}
		// remove import "C" and its doc (cgo preamble)
		var decls []ast.Decl
		for _, d := range af.Decls {
			if gd, ok := d.(*ast.GenDecl); ok && gd.Tok == token.IMPORT {
				var specs []ast.Spec
				for _, s := range gd.Specs {
					if pv := s.(*ast.ImportSpec).Path.Value; pv == `"C"` || pv == `"github.com/aergoio/aergo/v2/cmd/aergoluac/luac"` {
						continue
					}
					specs = append(specs, s)
				}
				if len(specs) == 0 {
					continue
				}
				gd.Specs = specs
				gd.Doc = nil
			}
			if fd, ok := d.(*ast.FuncDecl); ok && drop[fd.Name.Name] {
				continue
			}
			decls = append(decls, d)
		}
		af.Decls = decls
		// drop all comments (preamble, //export)
		af.Comments = nil
		ast.Inspect(af, func(n ast.Node) bool {
			switch x := n.(type) {
			case *ast.FuncDecl:
				x.Doc = nil
			case *ast.GenDecl:
				x.Doc = nil
			}
			return true
		})
		// rewrite C.x -> c_x
		var rewrite func(n ast.Node) bool
		replaceExpr := func(e *ast.Expr) {
			if se, ok := (*e).(*ast.SelectorExpr); ok {
				if id, ok := se.X.(*ast.Ident); ok && id.Name == "C" {
					used[se.Sel.Name] = true
					*e = &ast.Ident{Name: "c_" + se.Sel.Name, NamePos: se.Pos()}
				}
			}
		}
		_ = rewrite
		// generic walk replacing expressions in all fields via reflection-free approach: use astutil-like manual apply
		apply(af, replaceExpr)
		pruneImports(af)
		var buf bytes.Buffer
		if err := format.Node(&buf, fset, af); err != nil {
			panic(err)
		}
		os.WriteFile(filepath.Join(out, "t_"+f), buf.Bytes(), 0o644)
	}
	var names []string
	for k := range used {
		names = append(names, k)
	}
	sort.Strings(names)
	fmt.Println(strings.Join(names, " "))
}


// pruneImports removes imports whose package name is no longer referenced (functions were dropped).
func pruneImports(af *ast.File) {
	used := map[string]bool{}
	ast.Inspect(af, func(n ast.Node) bool {
		if se, ok := n.(*ast.SelectorExpr); ok {
			if id, ok := se.X.(*ast.Ident); ok {
				used[id.Name] = true
			}
		}
		return true
	})
	nameOf := func(is *ast.ImportSpec) string {
		if is.Name != nil {
			return is.Name.Name
		}
		p := strings.Trim(is.Path.Value, `"`)
		parts := strings.Split(p, "/")
		last := parts[len(parts)-1]
		if len(last) >= 2 && last[0] == 'v' && strings.Trim(last[1:], "0123456789") == "" && len(parts) > 1 {
			last = parts[len(parts)-2]
		}
		if i := strings.Index(last, "-"); i > 0 {
			last = last[:i]
		}
		if strings.HasPrefix(last, "go-") {
			last = last[3:]
		}
		return last
	}
	var decls []ast.Decl
	for _, d := range af.Decls {
		gd, ok := d.(*ast.GenDecl)
		if !ok || gd.Tok != token.IMPORT {
			decls = append(decls, d)
			continue
		}
		var specs []ast.Spec
		for _, s := range gd.Specs {
			is := s.(*ast.ImportSpec)
			if n := nameOf(is); n == "_" || n == "." || used[n] {
				specs = append(specs, s)
			}
		}
		if len(specs) > 0 {
			gd.Specs = specs
			decls = append(decls, gd)
		}
	}
	af.Decls = decls
	var imps []*ast.ImportSpec
	for _, d := range af.Decls {
		if gd, ok := d.(*ast.GenDecl); ok && gd.Tok == token.IMPORT {
			for _, s := range gd.Specs {
				imps = append(imps, s.(*ast.ImportSpec))
			}
		}
	}
	af.Imports = imps
}
