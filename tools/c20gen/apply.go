package main

import (
	"go/ast"
	"reflect"
)

// apply visits every ast.Expr-typed field (and slice element) and lets fn replace it.
func apply(root ast.Node, fn func(e *ast.Expr)) {
	exprType := reflect.TypeOf((*ast.Expr)(nil)).Elem()
	var walk func(v reflect.Value)
	seen := map[uintptr]bool{}
	walk = func(v reflect.Value) {
		switch v.Kind() {
		case reflect.Ptr:
			if v.IsNil() {
				return
			}
			if seen[v.Pointer()] {
				return
			}
			seen[v.Pointer()] = true
			walk(v.Elem())
		case reflect.Interface:
			if v.IsNil() {
				return
			}
			if v.Type() == exprType && v.CanSet() {
				e := v.Interface().(ast.Expr)
				fn(&e)
				v.Set(reflect.ValueOf(e))
			}
			walk(v.Elem())
		case reflect.Struct:
			if v.Type().String() == "ast.Object" || v.Type().String() == "ast.Scope" {
				return
			}
			for i := 0; i < v.NumField(); i++ {
				walk(v.Field(i))
			}
		case reflect.Slice:
			for i := 0; i < v.Len(); i++ {
				walk(v.Index(i))
			}
		}
	}
	walk(reflect.ValueOf(root))
}
