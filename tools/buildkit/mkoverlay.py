#!/usr/bin/env python3
"""usage: mkoverlay.py <worktree>  -> writes <worktree>/.overlay/overlay.json
Makes the packages that depend on the cgo/LuaJIT package `contract` buildable in this sandbox:
the cgo half of package contract is replaced by a small pure-Go stub VM (contract_stub.go: Create stores the payload
as code; Call interprets a JSON program {"ops":[["set","k","v"],["del","k"],["event","e"],["fail","msg"]]}).
Then:  cd <worktree> && go test -vet=off -count=1 -overlay .overlay/overlay.json ./chain/ ./mempool/ ./syncer/ ./consensus/... ./p2p/...
"""
import os, sys, json, re
wt = os.path.abspath(sys.argv[1])
here = os.path.dirname(os.path.abspath(__file__))
out = os.path.join(wt, ".overlay"); os.makedirs(out, exist_ok=True)
cdir = os.path.join(wt, "contract")
keep = {"contract.go", "errors.go", "statesql_params.go"}
rep = {}
for name in sorted(os.listdir(cdir)):
    p = os.path.join(cdir, name)
    if not os.path.isfile(p): continue
    if name.endswith(".c") or (name.endswith(".go") and name not in keep):
        rep[p] = ""
src = open(os.path.join(cdir, "contract.go")).read()
open(os.path.join(out, "contract_derived.go"), "w").write(re.sub(r'(?m)^import "C"[ \t]*\n', "", src, count=1))
rep[os.path.join(cdir, "contract.go")] = os.path.join(out, "contract_derived.go")
stub = os.path.join(here, "contract_stub.go")
if not os.path.exists(stub):  # inside /verif the stub lives in /verif/stub with a build tag: strip it
    src2 = open(os.path.join(here, "..", "..", "stub", "contract_stub.go")).read().replace("//go:build verif\n", "", 1)
    stub = os.path.join(out, "contract_stub.go")
    open(stub, "w").write(src2)
rep[os.path.join(cdir, "zz_stub.go")] = stub
json.dump({"Replace": rep}, open(os.path.join(out, "overlay.json"), "w"), indent=1)
print("wrote", os.path.join(out, "overlay.json"))
