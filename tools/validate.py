#!/usr/bin/env python3
import json, jsonschema, sys, glob
jsonschema.validate(json.load(open('/verif/MANIFEST.json')), json.load(open('/root/.vp/MANIFEST.schema.json')))
sch = json.load(open('/root/.vp/EVIDENCE.schema.json'))
m = json.load(open('/verif/MANIFEST.json'))
for c in m["checks"]:
    f = c["evidence_file"]
    try:
        jsonschema.validate(json.load(open(f)), sch)
    except Exception as e:
        print("INVALID", f, str(e)[:300]); sys.exit(1)
print("valid: manifest +", len(m["checks"]), "evidence files")
