#!/bin/bash
# usage: tools/seedconfirm.sh <name> <srcdir> <demo-dest-relpath> <run-regex> <pkg> <props...>
# Confirms a seeded change: the demonstration passes on the current /repo HEAD, fails with the patch, the existing tests
# of the touched package still pass with the patch; then runs the quick checks of the given properties against it.
set -u
export GOFLAGS=-mod=mod GOPROXY=off GOSUMDB=off GOTOOLCHAIN=local
NAME=$1; SRC=$2; DEST=$3; RUN=$4; PKG=$5; shift 5
WT=/tmp/conf_$NAME
OUT=/verif/seeded/$NAME
git -C /repo worktree remove --force $WT >/dev/null 2>&1
git -C /repo worktree add -q --detach $WT HEAD || exit 2
trap 'git -C /repo worktree remove --force $WT >/dev/null 2>&1; rm -rf /verif/.build/seed_$NAME' EXIT
mkdir -p $OUT
cp $SRC/patch.diff $OUT/patch.diff
cp $SRC/demo_test.go $OUT/demo_test.go
cp $SRC/README.md $OUT/README.agent.md 2>/dev/null
cp $SRC/demo_test.go $WT/$DEST
# the repository's chain tests use the memorydb under $HOME/.aergo/data, which concurrent runs would share
export GOCACHE=$(go env GOCACHE) GOPATH=$(go env GOPATH) GOMODCACHE=$(go env GOMODCACHE)
OLDHOME=$HOME; mkdir -p $WT/.home; export HOME=$WT/.home
OV=""
if [ "${KIT:-0}" = "1" ]; then python3 /verif/tools/buildkit/mkoverlay.py $WT >/dev/null && OV="-overlay $WT/.overlay/overlay.json"; fi
R0=$(cd $WT && go test -vet=off -count=1 $OV -run "$RUN" ./$PKG/ 2>&1 | tail -3)
echo "$R0" | grep -q "^ok" && D0=pass || D0=fail
if ! git -C $WT apply $OUT/patch.diff; then echo "$NAME: PATCH DOES NOT APPLY"; exit 2; fi
if [ "${KIT:-0}" = "1" ]; then python3 /verif/tools/buildkit/mkoverlay.py $WT >/dev/null; fi
R1=$(cd $WT && go test -vet=off -count=1 $OV -run "$RUN" ./$PKG/ 2>&1 | tail -3)
echo "$R1" | grep -q "^ok" && D1=pass || D1=fail
rm -f $WT/$DEST
R2=$(cd $WT && go test -vet=off -count=1 $OV ${SKIP:+-skip "$SKIP"} ./$PKG/ 2>&1 | tail -2)
echo "$R2" | grep -q "^ok" && D2=pass || D2=fail
rm -rf $WT/.overlay $WT/.home; export HOME=$OLDHOME
echo "$NAME: demo-without-patch=$D0 demo-with-patch=$D1 existing-tests-with-patch=$D2"
RES=""
for id in "$@"; do
  O=$(VERIF_REPO=$WT VERIF_NOEVIDENCE=1 VERIF_BUILD=/verif/.build/seed_$NAME VERIF_PAR=${VERIF_PAR:-8} /verif/check $id --tier ${TIER:-quick} 2>&1)
  rc=$?
  nv=$(echo "$O" | grep -c "^VIOLATION")
  msg=$(echo "$O" | grep -v "rapid\] draw" | grep -m1 -E "_test.go:[0-9]+: [^\[]" | cut -c1-300)
  echo "$NAME: check $id exit=$rc violations=$nv | $msg"
  RES="$RES $id:exit=$rc"
done
python3 - "$NAME" "$D0" "$D1" "$D2" "$DEST" "$RUN" "$PKG" "$RES" <<'PY'
import sys, json, os
name,d0,d1,d2,dest,run,pkg,res=sys.argv[1:9]
p='/verif/seeded/%s/meta.json'%name
m={}
if os.path.exists(p):
    try: m=json.load(open(p))
    except Exception: m={}
m.update({"name":name,"demo_dest":dest,"demo_cmd":"go test -vet=off -count=1 -run '%s' ./%s/"%(run,pkg),
  "confirmed":{"demo_without_patch":d0,"demo_with_patch":d1,"existing_tests_of_package_with_patch":d2},
  "checks_quick":res.strip()})
json.dump(m,open(p,'w'),indent=1)
PY
