#!/usr/bin/env python3
"""Regenerates /verif/MANIFEST.json from tools/props.py (single source of truth)."""
import json, os, sys
HERE = os.path.dirname(os.path.abspath(__file__))
sys.path.insert(0, HERE)
from props import PROPS, NOT_APPLICABLE  # noqa
VERIF = os.path.dirname(HERE)
allids = [json.loads(l)["id"] for l in open(os.path.join(VERIF, "properties.jsonl"))]
checks = []
for pid in sorted(PROPS):
    p = PROPS[pid]
    checks.append({
        "property_id": pid,
        "quick_cmd": "./check %s --tier quick" % pid,
        "thorough_cmd": "./check %s --tier thorough" % pid,
        "evidence_file": "/verif/evidence/%s.json" % pid,
        "replay_cmd_template": "./check %s --replay {path}" % pid,
        "engine": "rapid+overlay",
        "level_claimed": {"category": p["level"], "text": p["level_text"], "design_ref": "DESIGN.md section 4, %s" % pid},
        "level_note": p["level_note"],
        "technique": p["technique"],
    })
na = [{"property_id": i, "reason": NOT_APPLICABLE.get(i, "check not built yet (work in progress in this session)")}
      for i in allids if i not in PROPS]
m = {
    "version": 1,
    "setup_cmd": "./check --setup",
    "hooks": {
        "guard": "verif",
        "enable": "no source change in /repo: checks build /repo's working tree with `go test -c -tags verif -overlay <generated> -modfile <copy of go.mod + rapid>`; the overlay (tools/overlay.py) injects /verif/tests/<pkg>/*.go (all `//go:build verif`), the virtual helper package verifx/ev and the pure-Go VM stub",
        "baseline_off_cmd": "cd /repo && GOFLAGS=-mod=mod GOPROXY=off go test -json -vet=off -count=1 -timeout 25m ./...",
        "source_commits": [],
        "add_only": True,
    },
    "engines": [
        {"name": "rapid+overlay", "path": "/verif/check", "serves_properties": sorted(PROPS),
         "kind_free_text": "pgregory.net/rapid v1.3.0 property tests (stateful generators, shrinking, fail files) plus bounded exhaustive enumerators, compiled as in-package tests of /repo's current tree through go build -overlay; sharded over rapid seeds by ./check, which merges the evidence the checks write themselves"},
    ],
    "checks": checks,
    "not_applicable": na,
    "notes": "Genuine defects found are listed in /verif/known_findings.json (fixed ones with their 'fix:' commit in /repo). VERIF_SEED selects the rapid seeds (seed*1000+shard+1).",
}
json.dump(m, open(os.path.join(VERIF, "MANIFEST.json"), "w"), indent=1)
print("MANIFEST.json: %d checks, %d not_applicable" % (len(checks), len(na)))
