#!/bin/bash
# usage: tools/trymutant.sh <patchfile|-> <ID> [<ID>...]   (patch read from stdin when '-')
# Applies a patch to a scratch worktree of /repo (HEAD + working tree state) and runs the quick checks against it.
set -u
P=$1; shift
WT=/tmp/verif_mut_$$
git -C /repo worktree add -q --detach $WT HEAD >/dev/null 2>&1 || { echo "worktree failed"; exit 2; }
trap 'git -C /repo worktree remove --force $WT >/dev/null 2>&1; rm -rf /verif/.build/mut_$$' EXIT
if [ "$P" = "-" ]; then cat > $WT/.mut.patch; else cp "$P" $WT/.mut.patch; fi
if ! git -C $WT apply .mut.patch; then echo "patch does not apply"; exit 2; fi
rm -f $WT/.mut.patch
for id in "$@"; do
  VERIF_REPO=$WT VERIF_NOEVIDENCE=1 VERIF_BUILD=/verif/.build/mut_$$ /verif/check $id --tier ${TIER:-quick} 2>&1 | grep -E "VIOLATION|KNOWN-FINDING|\[check\] C|BUILD FAILED|inconclusive" | head -8
  echo "exit($id)=${PIPESTATUS[0]}"
done
