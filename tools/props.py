"""Per-property run configuration used by ./check.

units: list of {pkg, run, all/quick/thorough: {checks, shards, timeout, race, env, skip}}
"""

PROPS = {}
NOT_APPLICABLE = {}

PROPS["C10"] = {
    "title": "State trie: content-addressed, history-independent, persistent key-value map",
    "level": "exploration",
    "rule": ("rapid state machine over batches of set/delete on key universes colliding at drawn bit depths "
             "(around the 4-level batch boundaries), one Update+StageUpdates+Flush per batch as statedb does; "
             "oracle = Go map + fresh-trie rebuild + reopen + all historical roots. A case is non-trivial when "
             "some batch deletes a present key that shares >=4 prefix bits with a surviving key (forces shortcut "
             "move-up); distinct = distinct (universe, batch sequence). The exhaustive unit enumerates every "
             "sequence of `depth` batches (4 keys x {skip,v1,v2,del}) over 5 colliding universes."),
    "technique": "model-based stateful PBT (rapid) against a Go map + differential rebuild on a fresh trie; bounded exhaustive enumeration",
    "level_text": ("Generated-history search: every committed batch is compared with a map model (all reads), with the "
                   "root of a freshly built trie holding the same pairs (history independence), with a reopened "
                   "instance and with every earlier root; plus exhaustive enumeration of all batch sequences up to "
                   "depth 2 (quick) / 3 (thorough) over 4-key colliding universes. Finds counterexamples, proves nothing beyond the bound."),
    "level_note": "Trusted: aergo-lib memorydb, sha256. Domain restricted to what statedb issues (sorted non-empty batches, 32-byte values, one commit per batch). AtomicUpdate/Revert/LoadCache paths (unused by the node) are not exercised.",
    "assumptions": ["values are 32 bytes and batches are sorted and non-empty, as state/statedb produces them",
                    "aergo-lib memorydb is a correct key-value store"],
    "units": [
        {"pkg": "pkg/trie", "run": "^TestC10TrieModel$",
         "quick": {"checks": 1500, "shards": 8, "timeout": 600},
         "thorough": {"checks": 20000, "shards": 14, "timeout": 1500}},
        {"pkg": "pkg/trie", "run": "^TestC10Exhaustive$",
         "quick": {"shards": 6, "timeout": 240, "env": {"VERIF_C10_DEPTH": 2, "VERIF_C10_ALPHA": 3}},
         "thorough": {"shards": 16, "timeout": 2400, "env": {"VERIF_C10_DEPTH": 3, "VERIF_C10_ALPHA": 3}}},
    ],
}

PROPS["C11"] = {
    "title": "Merkle proofs for accounts and contract variables are sound and complete",
    "level": "exploration",
    "rule": ("tries built by random committed batches over colliding key universes (as C10); at a drawn current or "
             "historical root every universe key plus absent keys (random and 1-bit near misses) is proved in plain "
             "and compressed form; completeness = proof content equals the model and is accepted by the repository "
             "verifier and by an independent re-implementation; soundness = each honest proof is attacked with value/"
             "key/audit-node/bitmap/height/flag/proofKey/proofVal corruptions and key/value/root transplants and any "
             "ACCEPTED claim must be true in the model. Non-trivial = the case contains a proof with >=1 non-default "
             "audit node at a height that is not a multiple of 4, or a non-inclusion via a foreign leaf; distinct = "
             "distinct (root, universe)."),
    "technique": "PBT (rapid): model-based completeness + mutation/transplant soundness with truth-in-model oracle and an independent verifier",
    "level_text": ("Generated tries and keys; each honest proof is checked against the model, the repository verifier "
                   "and an independent re-implementation, then attacked by ~15 corruption/transplant families; any accepted "
                   "claim must be true in the model. Exploration only; no cryptographic argument."),
    "level_note": "Trusted: sha256, the map model. Verifier panics on malformed proofs (e.g. >256 audit nodes) are counted as refusals since the property only constrains what is accepted.",
    "assumptions": ["sha256 collision resistance", "verifier instance = trie.NewTrie(root, hasher, nil) as a light client would build it"],
    "units": [
        {"pkg": "pkg/trie", "run": "^TestC11Proofs$",
         "quick": {"checks": 400, "shards": 8, "timeout": 600},
         "thorough": {"checks": 6000, "shards": 16, "timeout": 1500}},
        {"pkg": "pkg/trie", "run": "^TestC11Regression$", "all": {"shards": 1, "timeout": 300}},
        {"pkg": "state/statedb", "run": "^TestC11StateProofs$",
         "quick": {"checks": 500, "shards": 6, "timeout": 600},
         "thorough": {"checks": 4000, "shards": 12, "timeout": 2400}},
    ],
}

PROPS["C12"] = {
    "title": "State snapshots: reverting restores exactly the earlier visible state",
    "level": "exploration",
    "technique": "model-based stateful PBT (rapid) with a snapshot-stack model + differential against a reference StateDB that only receives surviving writes; bounded exhaustive enumeration",
    "level_text": ("Generated histories of account puts, contract open/set/delete/stage (with inner ContractState snapshot/rollback), "
                   "nested BlockState snapshots and rollbacks to any earlier snapshot, Update and Commit over 1-3 blocks; every read is compared "
                   "with the model after every step and every committed block is compared (root, full dump after reopen, raw store contents) "
                   "with a reference that never saw the reverted writes. Exhaustive over a 10-op alphabet to depth 4 (quick) / 5 (thorough)."),
    "level_note": "Handles are used as the chain uses them (opened, written and staged inside one step, not held across a rollback); SetCode (writes through to the store immediately) is outside the listed operations and not exercised. Trusted: memorydb.",
    "rule": ("rapid state machine over {put account, contract tx (1-4 set/del with optional inner ContractState snapshot/rollback) + stage, "
             "BlockState.Snapshot, Rollback(any earlier snapshot)} x 1-3 committed blocks on 3 accounts x 3 contracts x 4 keys. Non-trivial = "
             "the history contains a rollback that undoes a contract staged after the snapshot, or a rollback to a non-top snapshot (nesting); "
             "distinct = distinct op sequence. Exhaustive unit: all sequences of `depth` ops over a 10-op alphabet on top of a committed base block."),
    "assumptions": ["aergo-lib memorydb is a correct key-value store"],
    "units": [
        {"pkg": "state", "run": "^TestC12Snapshots$",
         "quick": {"checks": 1500, "shards": 8, "timeout": 600},
         "thorough": {"checks": 25000, "shards": 12, "timeout": 1500}},
        {"pkg": "state", "run": "^TestC12Exhaustive$",
         "quick": {"shards": 6, "timeout": 240, "env": {"VERIF_C12_DEPTH": 4}},
         "thorough": {"shards": 16, "timeout": 1500, "env": {"VERIF_C12_DEPTH": 5}}},
    ],
}

PROPS["C19"] = {
    "title": "Canonical, binding encodings of blocks, transactions, receipts and chain id",
    "level": "exploration",
    "technique": "PBT (rapid): single-field mutation (metamorphic) on ids/digests/roots, list-operation mutation on Merkle roots, encode/decode round trips, reference re-implementation of the version table",
    "level_text": ("Generated headers, tx bodies, receipt lists (with/without events and bloom, both receipt formats), chain ids, genesis "
                   "documents and hardfork tables; every single-field mutation must change the block id / tx id / signed digest (except the "
                   "signature) / receipts root, every list operation (replace, swap, insert, delete, duplicate) must change the tx and receipts "
                   "root, and every stored form must read back equal. Exploration only."),
    "level_note": ("nil and empty byte strings are the same value by design and not counted as a mutation. Receipts are generated in the "
                   "domain the node produces (33-byte addresses with prefixes 02/03/0C, CumulativeFeeUsed unset, statuses of the enum). "
                   "The gob path through the chain DB is covered by the chain-level unit. sha256 trusted."),
    "rule": ("one rapid property per encoding; a case = (value, mutated field or list op). Non-trivial: block-id/tx-id/digest cases mutating a "
             "field other than the first/last of the encoding, list cases with >=3 entries, receipt cases with >=3 receipts or events+bloom, chain "
             "ids with non-empty magic and consensus, hardfork cases with an actual change of one fork height; distinct = distinct (value, mutation)."),
    "assumptions": ["sha256 collision resistance"],
    "units": [
        {"pkg": "types", "run": "^TestC19(BlockID|TxID|TxRoot)$", "quick": {"checks": 3000, "shards": 3, "timeout": 600}, "thorough": {"checks": 60000, "shards": 6, "timeout": 1500}},
        {"pkg": "types", "run": "^TestC19Receipts$", "quick": {"checks": 1500, "shards": 4, "timeout": 600}, "thorough": {"checks": 40000, "shards": 8, "timeout": 1500}},
        {"pkg": "types", "run": "^TestC19ChainID$", "quick": {"checks": 2000, "shards": 2, "timeout": 600}, "thorough": {"checks": 40000, "shards": 4, "timeout": 1500}},
        {"pkg": "types", "run": "^TestC19Regression$", "all": {"shards": 1, "timeout": 300}},
        {"pkg": "account/key", "run": "^TestC19TxSignDigest$", "quick": {"checks": 600, "shards": 3, "timeout": 600}, "thorough": {"checks": 10000, "shards": 6, "timeout": 1500}},
        {"pkg": "verifx/tree", "run": "^TestC19HardforkRestarts$", "quick": {"checks": 60, "shards": 4, "timeout": 600}, "thorough": {"checks": 1500, "shards": 8, "timeout": 1500}},
        {"pkg": "config", "run": "^TestC19HardforkVersion$", "quick": {"checks": 3000, "shards": 2, "timeout": 600}, "thorough": {"checks": 60000, "shards": 4, "timeout": 1500}},
    ],
}

PROPS["C09"] = {
    "title": "Block producer legitimacy: one producer per slot, valid signature, not future",
    "level": "exploration",
    "technique": "exhaustive enumeration of millisecond windows + PBT against independent big-integer slot arithmetic; header-mutation PBT against the real DPoS/raft signature, producer-set, slot-owner and future-slot checks",
    "level_text": ("Part A: every millisecond in windows of +-2 intervals around three consecutive producer-round wrap-arounds, for intervals "
                   "1/2/3/5 s and 1..100 producers (exhaustive), plus random 62-bit timestamps, checked for the structure the property states (exactly one owner in [0,n), constant "
                   "within a slot, +1 mod n at each boundary, every slot exactly one interval long, order relations consistent); which index owns which slot and the phase of the boundaries are deliberately not prescribed. Part B: real signed blocks against the real "
                   "DPoS acceptance path (VerifySign, producer membership, slot owner, future-slot rule) under single-field header mutations, "
                   "foreign/other-slot signers and timestamp shifts."),
    "level_note": "The future-slot rule reads the real clock: timestamps within 150 ms of a decision boundary are skipped and counted. SBP (single-node development consensus) has no block signature and is outside the statement. libp2p secp256k1 signatures trusted.",
    "rule": ("Part A: a case = (interval, producer count, round) window, all non-trivial (each spans 4 boundaries incl. a wrap-around); random cases "
             "non-trivial when the two instants lie in different slots. Part B: a case = (producer set, signer, timestamp, mutation); non-trivial = "
             "mutated block that still parses; distinct by the tuple."),
    "assumptions": ["Part A: positive timestamps (>= 1 ms after the epoch); Part B also covers pre-epoch instants"],
    "units": [
        {"pkg": "consensus/impl/dpos/slot", "run": "^TestC09SlotExhaustive$",
         "quick": {"shards": 8, "timeout": 240, "env": {"VERIF_C09_MAXN": 100}},
         "thorough": {"shards": 16, "timeout": 900, "env": {"VERIF_C09_MAXN": 100}}},
        {"pkg": "consensus/impl/dpos/slot", "run": "^TestC09SlotRandom$",
         "quick": {"checks": 20000, "shards": 2, "timeout": 600},
         "thorough": {"checks": 400000, "shards": 6, "timeout": 900}},
        {"pkg": "verifx/c08", "run": "^TestC09Blocks$",
         "quick": {"checks": 400, "shards": 8, "timeout": 700},
         "thorough": {"checks": 8000, "shards": 16, "timeout": 2400}},
    ],
}

PROPS["C01"] = {
    "title": "Ledger conservation: executing blocks never mints or burns native coin",
    "level": "exploration",
    "technique": "PBT (rapid) over generated block histories on real nodes; invariant oracle = sum of all balances in a full state dump before/after each block (independent of any ledger model), on producer and validator path",
    "level_text": ("Generated histories of 1-6 blocks x 0-8 transactions (transfers, stake/unstake/votes, name create/update/setOwner, enterprise "
                   "calls, deploy/call/fee-delegation of stub contracts, failing and to-be-skipped transactions) over drawn configurations (dpos/sbp, "
                   "public/private fee regime, hardfork schedule so that versions 0..5 occur, coinbase set or nil); each block is built by the real "
                   "producer path and connected, optionally re-executed by a second node; the total over a full dump of every account must be conserved "
                   "(minus receipt fees when there is no coinbase)."),
    "level_note": "The LuaJIT VM is replaced by the pure-Go stub (trusted, see DESIGN 1.3), so Lua-initiated transfers are out of reach. Unstake/re-vote only occur as refusals on real chains (86400-block lock); they are reached by the C15 virtual-height driver.",
    "rule": ("a case = one drawn configuration + history; non-trivial = some block has >=2 executed transactions of >=2 kinds with one moving value to/from "
             "a system account or ending in an ERROR receipt; distinct = distinct (configuration, per-block tx kinds)."),
    "assumptions": ["stub VM stands in for LuaJIT", "memorydb is a correct store"],
    "units": [
        {"pkg": "verifx/c01", "run": "^TestC01Conservation$",
         "quick": {"checks": 300, "shards": 10, "timeout": 600},
         "thorough": {"checks": 6000, "shards": 16, "timeout": 2400}},
    ],
}

PROPS["C02"] = {
    "title": "Deterministic execution: same block + same prior state => same roots everywhere",
    "level": "exploration",
    "technique": "differential PBT (rapid): producer path vs repeated validator-path executions on a second node (re-randomised map order / goroutine schedule), plus metamorphic re-production without the skipped transactions",
    "level_text": ("Generated blocks biased towards several staking/voting transactions on the same tallies and voting-power buckets, over all "
                   "hardfork versions, fee regimes and with the DPoS voting reward; each block is produced on node P, re-executed k times "
                   "(3 quick, 8 thorough; thorough also varies GOMAXPROCS and runs under the race detector) in verify-only mode on node V and then "
                   "connected there: state root, receipts root and receipts bytes must equal the producer's every time."),
    "level_note": "Nondeterminism is searched for dynamically only (Go map order, scheduling); wall-clock or RNG use that happens to agree on all repetitions is not seen. Several simulated nodes share one process: process-wide parameters and the in-memory voting-power ranking are reloaded from the node's own state before each execution, as a freshly started node does (the ranking's agreement with the state is C15's subject).",
    "rule": ("a case = configuration + 1-5 produced blocks; non-trivial = some block holds >=2 governance transactions touching the same issue "
             "(votes / stake of voters) or the producer skipped >=1 candidate; distinct = distinct (configuration, per-block tx kinds and senders)."),
    "assumptions": ["stub VM stands in for LuaJIT"],
    "units": [
        {"pkg": "verifx/c02", "run": "^TestC02ClusterChanges$",
         "quick": {"checks": 80, "shards": 4, "timeout": 700},
         "thorough": {"checks": 1500, "shards": 8, "timeout": 2400}},
        {"pkg": "verifx/c02", "run": "^TestC02Determinism$",
         "quick": {"checks": 150, "shards": 10, "timeout": 300, "env": {"VERIF_C02_REPS": 3}},
         "thorough": {"checks": 1800, "shards": 12, "timeout": 2400, "env": {"VERIF_C02_REPS": 8}}},
        {"pkg": "verifx/c02", "run": "^TestC02Determinism$", "quick": {"skip": True},
         "race_scope": r"aergo/v2/(chain|state|contract|types|fee|pkg/trie)[/.(]",
         # verification-time statistics (a process-wide moving average and a hit counter used in a debug log line)
         "race_ignore": r"types\.\(\*MovingAverage\)|types\.\(\*AvgTime\)|chain\.\(\*SignVerifier\)\.RequestVerifyTxs\.func2",
         "thorough": {"checks": 250, "shards": 4, "timeout": 2400, "race": True, "env": {"VERIF_C02_REPS": 4, "VERIF_GOMAXPROCS": 4}}},
    ],
}

_TREE_ASSUME = ["stub VM stands in for LuaJIT", "permissive test consensus (every block valid, longest chain) unless stated", "memorydb is a correct store"]

PROPS["C05"] = {
    "title": "Chain database consistency after any history of block arrivals",
    "level": "exploration",
    "technique": "PBT (rapid) over generated block trees x arrival schedules on a real node; invariant oracle over the public query surface and a raw key scan after every arrival",
    "level_text": ("Generated block trees (1-3 branches, shared prefixes, transactions shared between / conflicting across branches, blocks invalid in one way on any branch) built by the real producer path, "
                   "delivered to a real node through the validator path in generated orders (parents first, children first, permutations, duplicates) followed by a parents-first pass; after EVERY arrival: "
                   "best block linked to genesis, height index, tx index and receipts for every main-chain tx, abandoned-only txs not confirmed, receipts per main block, state root = best block's root and fully readable, "
                   "in-memory tip = persisted tip, no height entry above the tip, no reorg marker. Exhaustive unit: every arrival permutation of every tree shape with up to 4 blocks (quick) / 5 (thorough)."),
    "level_note": "Blocks reach the node only through addBlock (as from the network). The orphan pool drops a second orphan with the same parent by design; the invariants do not depend on that. DPoS LIB veto is exercised by C08, not here.",
    "rule": ("a case = (configuration, block tree, arrival schedule); non-trivial = the schedule caused at least one reorganisation or one orphan resolution; distinct = distinct (configuration, tree description, schedule)."),
    "assumptions": _TREE_ASSUME,
    "units": [
        {"pkg": "verifx/tree", "run": "^TestC05Arrivals$",
         "quick": {"checks": 120, "shards": 12, "timeout": 700},
         "thorough": {"checks": 2500, "shards": 16, "timeout": 2400}},
        {"pkg": "verifx/tree", "run": "^TestC05Exhaustive$",
         "quick": {"shards": 4, "timeout": 700, "env": {"VERIF_C05_BLOCKS": 4}},
         "thorough": {"shards": 16, "timeout": 2400, "env": {"VERIF_C05_BLOCKS": 6}}},
    ],
}

PROPS["C07"] = {
    "title": "Fork choice: reorganisation reaches the longest valid branch and its exact state",
    "level": "exploration",
    "technique": "PBT (rapid) over competing branches x arrival interleavings; step oracle (strictly-longer-only switches, longest completely stored valid branch is best, state root = best root, abandoned-only txs re-pooled) + differential against a reference node fed only the winning branch",
    "level_text": ("Generated trees of 2-3 competing branches (fork depth 0-5, overlapping and conflicting transactions, an invalid block possible at every position) delivered in generated interleavings; after every arrival the best block may only "
                   "have moved to a strictly higher valid block, must be at least as high as every completely stored valid branch, the world state root is the best block's, the set of transactions offered to the pool equals "
                   "(abandoned-only minus new-branch) and a refused branch leaves the consensus status at the best block; at the end the full state dump and the active system parameters equal those of a fresh node that only executed the winning branch."),
    "level_note": "Equal-height ties: first seen wins, any tip of maximal height is accepted when several become available in one step. The DPoS below-LIB veto is checked in C08 with the real DPoS status.",
    "rule": ("a case = (configuration, tree, schedule); non-trivial = a reorganisation rolling back >=2 blocks, or a reorganisation plus a refused delivery in the same history; distinct by the triple."),
    "assumptions": _TREE_ASSUME,
    "units": [
        {"pkg": "verifx/tree", "run": "^TestC07ForkChoice$",
         "quick": {"checks": 120, "shards": 12, "timeout": 700},
         "thorough": {"checks": 2500, "shards": 16, "timeout": 2400}},
        {"pkg": "verifx/tree", "run": "^TestC07KnownValidPrefix$", "all": {"shards": 1, "timeout": 300}},
        {"pkg": "verifx/tree", "run": "^TestC07RegressionParamsDuringReorg$", "all": {"shards": 1, "timeout": 300}},
        # the irreversibility clause with the real DPoS veto: the C08 simulation (several real nodes, a misbehaving
        # producer growing a private branch while the others stay silent), judged for fork choice
        {"pkg": "verifx/c08", "run": "^TestC07DPoSForkChoice$",
         "quick": {"checks": 40, "shards": 6, "timeout": 500},
         "thorough": {"checks": 800, "shards": 12, "timeout": 2400}},
    ],
}

PROPS["C03"] = {
    "title": "Transaction atomicity: a tx applies fully, as fee+nonce only, or not at all",
    "level": "exploration",
    "technique": "PBT (rapid): per-transaction differential of the full buffered state against the three allowed outcomes; invalid-block no-residue comparison (state dump, raw chain store, indexes) on a real node",
    "level_text": ("(a) generated blocks of mixed succeeding / run-time failing / to-be-rejected transactions on the same accounts and governance storage, executed one by one through the real executor: after each transaction the full state "
                   "(all accounts + all storage, via Update on a copy) must equal the pre-state (rejected), or differ from it in exactly payer fee + sender nonce with an ERROR receipt (run-time failure), or carry a non-ERROR receipt; (b) generated "
                   "trees with blocks invalid at every position (bad state/receipts/tx root, extra bad-nonce tx, consistent-but-forged txs): a refused delivery leaves best block, state root, full dump, consensus status, all index invariants and - for a direct child of the tip - the raw chain store unchanged, and valid blocks are still accepted afterwards."),
    "level_note": "The Lua VM is the pure-Go stub: run-time failures are the stub's `fail` op, the V4 recipient rule, not-a-contract calls, governance execution errors. SQL state is out of reach.",
    "rule": ("(a) a case = configuration + prefix history + one block; non-trivial = a failing or rejected transaction preceded in the same block by a successful one touching the same account/contract. (b) a case = tree + schedule; non-trivial = a refused delivery on a chain of height >=2 or a failed reorganisation with the invalid block at position >=2."),
    "assumptions": _TREE_ASSUME,
    "units": [
        {"pkg": "verifx/c03", "run": "^TestC03TxAtomicity$",
         "quick": {"checks": 80, "shards": 12, "timeout": 700},
         "thorough": {"checks": 1500, "shards": 16, "timeout": 2400}},
        {"pkg": "verifx/c03", "run": "^TestC03DroppedProduction$",
         "quick": {"checks": 60, "shards": 6, "timeout": 700},
         "thorough": {"checks": 1200, "shards": 12, "timeout": 2400}},
        {"pkg": "verifx/tree", "run": "^TestC03InvalidBlocks$",
         "quick": {"checks": 100, "shards": 10, "timeout": 700},
         "thorough": {"checks": 2000, "shards": 16, "timeout": 2400}},
        {"pkg": "verifx/tree", "run": "^TestC03RegressionFailedReorg$", "all": {"shards": 1, "timeout": 300}},
    ],
}

PROPS["C04"] = {
    "title": "Authorisation and replay protection for executed transactions",
    "level": "exploration",
    "technique": "PBT (rapid): history invariant over the executed main chain with an independent signature/chain-id verifier; forged-twin blocks (everything consistent except the authorisation) must be refused",
    "level_text": ("Generated trees whose candidate lists contain replays of included transactions (same and other branches), nonce gaps and duplicates, and blocks in which one transaction is replaced by a forged twin (signed by another key, carrying a genuine signature made for another body, "
                   "or signed for another chain id) with tx root and receipts root recomputed so that ONLY the authorisation check can refuse the block. Oracle: along the final main chain every account's nonces are 1,2,3,..., no tx id repeats, every tx verifies under an independent "
                   "re-implementation of digest + ECDSA + chain-id binding, state nonces equal the executed counts, and no block with a forged tx is ever on the main chain."),
    "level_note": "Name-account senders (owner-signed) are not generated. Pool admission of forged transactions is covered by the C13/C14 pool units.",
    "rule": ("a case = tree + schedule; non-trivial = the tree contains a forged-twin block, an extra bad-nonce transaction, a borrowed (replayed/shared) transaction or a nonce-faulted candidate; distinct by (configuration, tree, schedule)."),
    "assumptions": _TREE_ASSUME + ["secp256k1 ECDSA (btcec) and sha256 are trusted"],
    "units": [
        {"pkg": "verifx/tree", "run": "^TestC04ForgedBlocks$",
         "quick": {"checks": 100, "shards": 10, "timeout": 700},
         "thorough": {"checks": 2000, "shards": 16, "timeout": 2400}},
        {"pkg": "verifx/tree", "run": "^TestC04RegressionStaleVerify$", "all": {"shards": 1, "timeout": 300}},
        {"pkg": "verifx/tree", "run": "^TestC04NameSenderOnBlockPath$", "quick": {"checks": 120, "shards": 4, "timeout": 600}, "thorough": {"checks": 3000, "shards": 8, "timeout": 2400}},
    ],
}

PROPS["C15"] = {
    "title": "Governance accounting: stakes, votes, rankings and names stay consistent",
    "level": "exploration",
    "technique": "model-based stateful PBT (rapid) on virtual block heights: reference model of stakes/votes/names written from the property's rules, compared with the stored governance data after every block, plus invariants on the stored data itself (sums, tallies, ranking order, tie-break stability, memory-vs-state ranking)",
    "level_text": ("Generated histories (2-10 blocks x 1-5 transactions by 2-5 accounts) of stake, partial/full unstake, producer votes over overlapping candidate sets, parameter votes, name create/update and transfers, executed one transaction at a time through the real "
                   "executor on block heights that jump by 1 .. 2x86400 so that lock periods are straddled at their exact boundaries, under fork versions 0..5. Every accept/refuse decision must equal the reference model's; after every block: each stake and vote record equals the model, "
                   "staking total = sum of stakes = balance of the staking account, no vote exceeds its stake, each tally = sum of the recorded votes for the candidate, ranking lists each candidate once in non-increasing order with a stable order among ties, unstake credits exactly the requested amount, "
                   "the in-memory voting power ranking equals the one rebuilt from the stored state, names have exactly the model's owner."),
    "level_note": "Virtual heights: blocks are executed on a block state with a drawn block number and committed to the state store only (the 86400-block delays are otherwise unreachable). Parameter votes use values that leave staking minimum and name price unchanged when they pass, so the model needs no parameter tracking; gas price and bp count vary freely. Plain transfers to the staking account are not generated (they are legal and would make 'balance = total stake' false by construction).",
    "rule": ("a case = configuration + history; non-trivial = the history contains a partial unstake that shrinks at least one existing vote, or a tie between candidates with non-zero tally; distinct = distinct (configuration, history)."),
    "assumptions": ["stub VM not involved (governance is native Go)", "memorydb is a correct store"],
    "units": [
        {"pkg": "verifx/c15", "run": "^TestC15Governance$",
         "quick": {"checks": 150, "shards": 12, "timeout": 700},
         "thorough": {"checks": 4000, "shards": 16, "timeout": 2400}},
        {"pkg": "verifx/c15", "run": "^TestC15KnownPreV2Vote$", "all": {"shards": 1, "timeout": 300}},
        {"pkg": "verifx/c15", "run": "^TestC15KnownSystemAccountInputs$", "all": {"shards": 1, "timeout": 300}},
    ],
}

PROPS["C14"] = {
    "title": "Admission totality: untrusted transactions never crash a node",
    "level": "exploration",
    "technique": "grammar-based PBT (rapid) over transaction bodies and JSON governance payloads against the real pool admission path, then execution of every admitted transaction through the real executor (producer and validator mode); oracle = no panic, outcome in {accept, specific rejection} / {success, ERROR receipt, skipped}; native go fuzzing of the validation entry points in the thorough tier",
    "level_text": ("Generated hostile transactions: every type (incl. unknown), recipients (system/name/enterprise/vault accounts, addresses, names, nil, arbitrary bytes), amount / gas price of arbitrary length, and payloads from a grammar of governance calls "
                   "(every call name x 0-4 arguments drawn from valid and valid-but-unexpected values: wrong JSON types, null, nested, huge numbers, multihash ids of other lengths, non-ASCII names, long strings) plus raw JSON shapes and garbage, correctly signed so that they reach the stateful checks, "
                   "against a state with stakers, a registered name and a contract, on public/private dpos/sbp/raft networks under fork versions 0..5. Admission is the real pool path (verifyTx + put); every admitted transaction is executed in a block in both execution modes."),
    "level_note": "Fee-delegation transactions are verified but not offered to the pool (the pool asks the chain-service actor, which is not wired in the harness); they are executed directly. The Lua VM is the stub, so panics inside LuaJIT are out of reach.",
    "rule": ("a case = network configuration + 1-6 hostile transactions; non-trivial = at least one transaction passed full pool admission (i.e. reached the deep code); distinct = distinct (configuration, transaction descriptions)."),
    "assumptions": ["stub VM stands in for LuaJIT"],
    "units": [
        {"pkg": "verifx/c14", "run": "^TestC14Admission$",
         "quick": {"checks": 250, "shards": 12, "timeout": 700},
         "thorough": {"checks": 6000, "shards": 16, "timeout": 2400}},
        {"pkg": "verifx/c14", "run": "^TestC14KnownOddCandidate$", "all": {"shards": 1, "timeout": 300}},
    ],
}

PROPS["C13"] = {
    "title": "Transaction pool: per-account nonce order, no stale or duplicate entries",
    "level": "exploration",
    "technique": "model-based stateful PBT (rapid) on the real MemPool over a real, reorganising chain service; invariant oracle on the pool's lists / hash index / counters / producer offer relative to the node's state nonces; concurrent schedule + race detector in the thorough tier",
    "level_text": ("Generated histories of submissions (arbitrary nonce order, duplicates, same-nonce replacements, resubmission of executed or removed transactions), removals, blocks built from the pool's own offer or from outside transactions, and real reorganisations of depth 1-3 of the node; "
                   "the pool receives exactly the notifications the chain service emits (one per executed block, one per abandoned transaction), in order. After every step: every account list is strictly ascending by nonce and holds nothing at or below the state nonce, the ready prefix is exactly the gap-free run from state+1, "
                   "the producer is offered exactly those runs, hashes are unique and the hash index equals the held set, exist() agrees, Size() and the unconfirmed report equal recomputed totals, and each submission is accepted iff its nonce is above the state nonce and neither the nonce slot nor the hash is taken."),
    "level_note": "Amounts are tiny and balances huge, so affordability never filters (the balance filter is exercised by C14's hostile amounts only for crashes). Eviction by age uses the wall clock and is exercised only in the thorough tier with a shimmed period.",
    "rule": ("a case = configuration + 3-25 steps; non-trivial = the history contains a gap fill, a state change (block or reorganisation), and a removal inside the ready run or a reorganisation; distinct = distinct (configuration, step list)."),
    "assumptions": ["stub VM not involved (transfers only)", "permissive test consensus for the node"],
    "units": [
        {"pkg": "verifx/c13", "run": "^TestC13Pool$",
         "quick": {"checks": 120, "shards": 12, "timeout": 700},
         "thorough": {"checks": 2500, "shards": 16, "timeout": 2400}},
        {"pkg": "verifx/c13", "run": "^TestC13Concurrent$", "race_scope": r"aergo/v2/mempool\.",
         "quick": {"checks": 60, "shards": 4, "timeout": 700},
         "thorough": {"checks": 600, "shards": 8, "timeout": 2400, "race": True}},
    ],
}

PROPS["C16"] = {
    "title": "Raft log storage and membership: durable, truncating correctly, quorum-safe",
    "level": "exploration",
    "technique": "model-based stateful PBT (rapid) on the real WAL API with restart injection after every kind of step (reference log model); decision-table PBT of membership requests against the real validation + availability check behind a fake raft node",
    "level_text": ("Part A: generated histories of append batches whose first index lies anywhere in [snapshot+1, last+1] (truncating a shorter, equal or longer suffix), entries carrying real produced blocks, empty entries and conf changes, hard-state / snapshot / identity writes, ResetWAL, ClearWAL and restarts (close + reopen the memorydb directory); after every step every index up to last+3, "
                   "the block-hash lookup, hard state, snapshot, identity and ReadAll (entries after the snapshot with blocks re-materialised byte-identical) are compared with a reference log. Part B: clusters of 1-5 members with generated health vectors (healthy, slow beyond / exactly at the gap limit, probing, snapshotting) and removed-member sets; add requests (fresh, duplicate name/id/address/peer id, removed id, invalid fields) and remove requests "
                   "(healthy/unhealthy existing, unknown, already removed) decided by the real code and by the property's rule table."),
    "level_note": "raft never hands the log a batch that starts beyond last+1 or inside the snapshot, so those are not generated. The raft library itself (etcd) and its MemoryStorage are trusted. Health is fabricated through raft.Status of a fake node; the leader is member 0.",
    "rule": ("Part A: a case = step list; non-trivial = at least one truncating append and one restart. Part B: a case = (cluster, health vector, removed set, request); non-trivial = the cluster has an unhealthy member or the request must be refused. Distinct by the full description."),
    "assumptions": ["memorydb persists on Close and reloads on open (aergo-lib)", "etcd raft MemoryStorage/Status are correct"],
    "units": [
        {"pkg": "consensus/impl/raftv2", "run": "^TestC16Wal$",
         "quick": {"checks": 100, "shards": 10, "timeout": 700},
         "thorough": {"checks": 2000, "shards": 14, "timeout": 2400}},
        {"pkg": "consensus/impl/raftv2", "run": "^TestC16Membership$",
         "quick": {"checks": 1500, "shards": 2, "timeout": 600},
         "thorough": {"checks": 40000, "shards": 2, "timeout": 2400}},
    ],
}

PROPS["C08"] = {
    "title": "DPoS finality: the irreversible block is monotone, on-chain and never undone",
    "level": "exploration",
    "technique": "schedule-generating PBT (rapid) over several real nodes (chain service + real DPoS status) in one process: production, delayed / reordered / lost delivery, equivocation within the fault budget, restarts; history invariants per node and across nodes",
    "level_text": ("n = 1..4 producers, each running a real node; 4-36 slots; per slot the owner (asked from the real slot arithmetic) produces a signed empty block on its own best block with Confirms computed by the block factory's rule, skips, or (n = 4 only, one faulty producer) also signs a second block on another parent; "
                   "each block reaches each other node now, 1-5 slots later or never; nodes restart at drawn slots. After every delivery: the node's LIB did not decrease, is the main-chain block at its height, is followed up to the tip by blocks of at least 2n/3+1 distinct producers, no main-chain block at or below any LIB ever reported was replaced, "
                   "blocks numbered at or below the LIB are refused, and the LIBs of every pair of nodes lie on one chain; after a restart the restored LIB equals the one reported before."),
    "level_note": "Blocks are empty so that the execution layer's process-wide parameters are never written while several nodes share the process; producer elections (every 100 blocks) are out of range; the future-slot rule is avoided by placing the slots two hours in the past. The Confirms rule is re-implemented in the harness (trusted). 'Restored status equals the one recomputed from the stored blocks' is reported as a class only when a from-scratch replay differs (see DESIGN.md).",
    "rule": ("a case = (n, schedule); non-trivial = the LIB advanced at least twice on some node and a fork (two tips, or an equivocation) or a restart occurred; distinct = distinct schedule."),
    "assumptions": ["libp2p secp256k1 signatures", "sequential driving of the nodes with the DPoS boot loader switched per node"],
    "units": [
        {"pkg": "verifx/c08", "run": "^TestC08Finality$",
         "quick": {"checks": 60, "shards": 12, "timeout": 500},
         "thorough": {"checks": 1200, "shards": 16, "timeout": 2400}},
        {"pkg": "verifx/c08", "run": "^TestC08StaleProposalsAfterReorg$", "all": {"shards": 1, "timeout": 300}},
        {"pkg": "verifx/c08", "run": "^TestC08FailedReorg$", "quick": {"checks": 40, "shards": 4, "timeout": 700}, "thorough": {"checks": 600, "shards": 8, "timeout": 2400}},
    ],
}


PROPS["C18"] = {
    "title": "P2P boundary: bounded framing, same-chain peers only, content-addressed blocks",
    "level": "exploration",
    "technique": "PBT (rapid): round trip of generated message sequences through one writer/reader pair, bounded-allocation + totality oracle on generated hostile byte streams (native fuzzing in the thorough tier), single-field mutation of handshake status messages against the real handshaker, forged-identifier block deliveries against a real chain service",
    "level_text": ("(a) sequences of 1-6 messages (every sub-protocol id incl. unknown ones, payload sizes 0,1,47,48,49,1500,limit-1,limit,limit+1, zero / all-ones / random ids and original ids, arbitrary timestamps) written by one V030 writer and read back by one reader must be identical in every field; limit+1 is refused by the writer; streams truncated at a drawn offset, random bytes and headers announcing up to 2^32-1 bytes must yield an error without panic and without allocating more than the configured maximum; "
                   "(b) the real V200 handshaker (inbound and outbound) accepts the matching status of a generated chain (chain id flags, version schedule, genesis, peer id) and refuses every status differing in one field (genesis bit/length, peer id, chain id version/magic/consensus/public/main-net/garbage, address, sender, best hash length, height of another fork version), answering GoAway; "
                   "(c) blocks whose identifier field is not the digest of their header (identifier of another valid block, header or body altered) delivered before/after the genuine block to a real node: nothing is stored or indexed under an identifier that is not the digest of the stored header, and the genuine block is accepted afterwards."),
    "level_note": "The payload limit is lowered through the package variable the code itself reads (p2pcommon.MaxPayloadLength), so limit+1 cases stay cheap. The v0.3.3 handshaker shares checkRemoteStatus logic and is exercised by the repository's own tests only. libp2p transport security is out of scope.",
    "rule": ("a case = one generated sequence / stream / status / delivery order; non-trivial: (a) a sequence of >=2 messages or a payload > 1 KiB, a structured hostile stream; (b) a status differing in exactly one field; (c) a forged variant processed before the genuine block. Distinct by full description."),
    "assumptions": ["bufio.Reader default buffer (4 KiB) is part of the allocation slack"],
    "units": [
        {"pkg": "p2p/subproto", "run": "^TestC18HandlerAllocation$", "links": {"../test": "p2p/test"},
         "quick": {"checks": 150, "shards": 2, "timeout": 600},
         "thorough": {"checks": 1500, "shards": 4, "timeout": 1500}},
        {"pkg": "p2p/v030", "links": {"../test": "p2p/test"}, "run": "^TestC18Framing$", "quick": {"checks": 1500, "shards": 3, "timeout": 600}, "thorough": {"checks": 40000, "shards": 6, "timeout": 1500}},
        {"pkg": "p2p/v030", "links": {"../test": "p2p/test"}, "run": "^TestC18ReadBounded$", "quick": {"checks": 3000, "shards": 2, "timeout": 600}, "thorough": {"checks": 60000, "shards": 4, "timeout": 1500}},
        {"pkg": "p2p", "links": {"test": "p2p/test"}, "run": "^TestC18BlockNotices$", "quick": {"checks": 600, "shards": 2, "timeout": 600}, "thorough": {"checks": 8000, "shards": 4, "timeout": 1500}},
        {"pkg": "p2p", "links": {"test": "p2p/test"}, "run": "^TestC18HandshakeVersions$", "quick": {"checks": 1500, "shards": 2, "timeout": 600}, "thorough": {"checks": 30000, "shards": 4, "timeout": 1500}},
        {"pkg": "p2p/v200", "links": {"../test": "p2p/test"}, "run": "^TestC18Handshake$", "quick": {"checks": 1500, "shards": 3, "timeout": 600}, "thorough": {"checks": 40000, "shards": 6, "timeout": 1500}},
        {"pkg": "verifx/tree", "run": "^TestC18BlockIdentity$", "quick": {"checks": 120, "shards": 6, "timeout": 700}, "thorough": {"checks": 3000, "shards": 12, "timeout": 2400}},
    ],
}

PROPS["C06"] = {
    "title": "Crash recovery: every crash point leaves a recoverable, consistent chain",
    "level": "fault_enumeration",
    "technique": "fault enumeration over generated scenarios: journaling stores record every durable write unit of a crash-free run; every journal prefix (thorough: also every partial bulk flush) is materialised as on-disk stores and a real node is restarted on it; oracle = start + Recover succeed, C05 invariants, best block in {tip before, tip after}, convergence to the crash-free final state after re-feeding the blocks",
    "level_text": ("Scenarios = generated block trees (2-7 blocks with transactions, 1-3 branches) x arrival schedules (linear connection, orphan resolution, reorganisations of depth 1-3, duplicates), run once on a node whose chain store and state store are wrapped by a journal. The journal lists, in one global order, single sets/deletes, committed DB transactions and flushed bulks. "
                   "EVERY prefix k of the journal is a crash point: snapshot + first k units are written as the memorydb files of a new directory, a real node boots on it (Init, loadChainData, marker-driven recover) and runs Recover. Checked per crash point: boot and recovery succeed, all C05 invariants, best block is the tip before or after the interrupted arrival, no reorg marker remains, "
                   "and after all blocks are delivered again best block, state root and full state dump equal those of the crash-free run. The thorough tier additionally crashes inside bulk units after every operation (bulk flushes are not atomic on a real store)."),
    "level_note": "Exhaustive over the write-unit boundaries of each explored scenario, not over scenarios. Consensus is the permissive stub (the DPoS status is saved inside the tip transaction and reloaded in C08's restarts). Failures of boot/recovery that end in os.Exit kill the test process: the driver reports such a death as a violation with the log as replay. memorydb's on-disk format is the trusted crash model (a store that loses acknowledged writes is out of scope).",
    "rule": ("a case = scenario (tree + schedule); every case enumerates all its crash points (class counters report how many). Non-trivial = the scenario has at least one crash point strictly inside a multi-unit operation; distinct = distinct scenario."),
    "assumptions": ["a committed DB transaction is atomic and durable; a bulk flush applies its operations in order", "stub VM stands in for LuaJIT"],
    "units": [
        {"pkg": "verifx/tree", "run": "^TestC06CrashPoints$",
         "quick": {"checks": 40, "shards": 12, "timeout": 500},
         "thorough": {"checks": 500, "shards": 16, "timeout": 2400}},
        {"pkg": "verifx/tree", "run": "^TestC06KnownUnadoptedBranch$", "all": {"shards": 1, "timeout": 300}},
    ],
}

PROPS["C17"] = {
    "title": "Block sync delivers a gap-free ascending chain from a true common ancestor",
    "level": "exploration",
    "technique": "fault-schedule PBT (rapid) against the real Syncer with the harness playing every other actor: generated per-request fault plans (errors, short / extra / unlinked / foreign chunks, late, never, stale-session answers); history invariants over the blocks handed to the chain service, the ancestor, termination and restartability",
    "level_text": ("Local / remote stub chains (highest shared block 0-12, 0-8 local and 1-40 remote blocks above it, 1-3 peers, hash request size 3-7, chunk size 2-5, 1-4 parallel tasks, anchor scan on or forced full scan); every GetSyncAncestor / GetHashByNo / GetHashes / GetBlockChunks / AddBlock request is answered according to a generated plan. "
                   "Checked on every run: blocks handed to the chain service are strictly ascending, contiguous from ancestor+1, each the child of its predecessor, no duplicates; the ancestor lies on both chains and is the highest shared block whenever the full scan decided; the session ends (within 25 s) not running, success implies the target height, a run with only delays / stale answers must succeed, and a second fault-free session reaches the remote tip."),
    "level_note": "The syncer's goroutines and its 250 ms fetch timeout make the interleaving only partly controlled: the fault plan is data (cyclic decision lists per request kind), the arrival order of requests is the scheduler's. A run that does not end within 25 s is reported as a violation only because the unchanged tree never needed more than 3 s in 50 000 runs; set VERIF_C17_DEADLINE to change it. Blocks of the stub chains carry wall-clock timestamps, so hashes differ between runs while the structure is replayed.",
    "rule": ("a case = (chains, configuration, fault plan); non-trivial = at least one injected fault or reordering and a target at least two chunks above the ancestor; distinct = distinct description."),
    "assumptions": ["chain.StubBlockChain (repository test helper) is a correct model of the chain service's AddBlock contract"],
    "units": [
        {"pkg": "verifx/tree", "run": "^TestC17Anchors$",
         "quick": {"checks": 25, "shards": 8, "timeout": 600, "env": {"VERIF_C17_LONGPCT": 16}},
         "thorough": {"checks": 300, "shards": 12, "timeout": 2400, "env": {"VERIF_C17_LONGPCT": 20}}},
        {"pkg": "syncer", "run": "^TestC17Sync$",
         "quick": {"checks": 60, "shards": 12, "timeout": 600},
         "thorough": {"checks": 800, "shards": 16, "timeout": 2400}},
    ],
}


PROPS["C20"] = {
    "title": "Contract queries and view functions cannot change state",
    "variant": "c20",
    "level": "exploration",
    "technique": "PBT (rapid) over generated host-callback sequences on the transliterated Go half of the VM (built from the current working tree): read-only context vs writable twin (metamorphic), observable-state invariance oracle",
    "level_text": ("The LuaJIT VM, its C modules and SQLite cannot be built in this environment, so contract programs cannot be executed. What is executed is the Go half of the mechanism named by the property: at check time the current vm_callback.go, vm.go, vm_state.go, internal_operations.go, lstate_factory.go and hook.go are transliterated with go/ast (cgo symbols C.x -> pure-Go stand-ins c_x; six functions that dereference C structs dropped) and compiled into package contract. "
                   "Generated sequences of 1-8 mutating host callbacks (luaSetDB, luaDelDB, luaSendAmount, luaEvent, luaSetRecoveryPoint, luaGovernance stake/unstake/vote, luaDeployContract) run on a real vmContext over a real BlockState in a client-query context, a fee-delegation-check context and inside 1-3 nested view wrappers entered/partly left through the real luaViewStart/luaViewEnd, for fork versions 0-5: every call must refuse, "
                   "and contract storage, all account states of the call state, events, recovery points, update size and the state root must be unchanged; the same sequence in a writable twin must change state (else the case counts as trivial)."),
    "level_note": "Out of reach and NOT claimed: the C side (db_module.c SQL write path, vm.c view wrapper, the Lua->host binding), luaCallContract / luaDelegateCallContract beyond their argument checks (they need a Lua state before the guard is reached), and real contract programs. A guard removed there is not detected. If a future change of the transliterated files uses cgo in a way the transliteration cannot handle, the check ends as an infrastructure error (exit 2), never as a violation.",
    "rule": ("a case = (context kind, view nesting, fork version, callback sequence); non-trivial = the writable twin changed at least two different kinds of state; distinct = distinct case description."),
    "assumptions": ["the pure-Go stand-ins for cgo symbols (c20/cshim.go) are behaviour-free", "the transliteration only renames C.x selectors and drops functions listed in tools/overlay.py"],
    "units": [
        {"pkg": "contract", "run": "^TestC20ReadOnlyGuards$",
         "quick": {"checks": 1500, "shards": 6, "timeout": 700},
         "thorough": {"checks": 30000, "shards": 12, "timeout": 2400}},
    ],
}


# ---------------------------------------------------------------------------------------------------------------
# Amendments to the texts above after the second implementation session (kept as replacements on the evaluated strings
# so that each one fails loudly if the original sentence is edited).
def _amend(pid, field, old, new):
    cur = PROPS[pid][field]
    assert cur.count(old) == 1, (pid, field, old[:50])
    PROPS[pid][field] = cur.replace(old, new)


_amend("C02", "level_text", "Generated blocks biased towards several staking/voting transactions on the same tallies and voting-power buckets, over all hardfork versions",
       "Generated blocks biased towards several staking/voting transactions on the same tallies and voting-power buckets (in half of the cases with a tie bias: equal stakes, votes on one issue for values that are one number spelt differently, so that distinct candidates tie), with contract calls that fail at run time or die with a VM system error after writing state (rejected: the producer leaves them out), over all hardfork versions")
_amend("C02", "level_text", "(3 quick, 8 thorough; thorough also varies GOMAXPROCS and runs under the race detector)",
       "(3 quick, 8 thorough; thorough also varies GOMAXPROCS and runs under the race detector, whose reports are judged when they touch execution code, see DESIGN.md 10.1)")
_amend("C07", "technique", "+ differential against a reference node fed only the winning branch",
       "+ differential against a reference node fed only the winning branch; plus the multi-node real-DPoS schedule simulation of C08 judged for fork choice around the irreversible block")
_amend("C07", "level_text", "at the end the full state dump and the active system parameters equal those of a fresh node that only executed the winning branch.",
       "at the end the full state dump and the active system parameters equal those of a fresh node that only executed the winning branch. Invalid kinds include header numbers that skip ahead or fall back. DPoS unit: in the C08 simulation (real DPoS status, a misbehaving producer growing a private branch while the others fall silent) no node may leave unadopted a completely stored branch that is strictly longer than its main chain and forks at or above its irreversible block.")
_amend("C07", "level_note", "The DPoS below-LIB veto is checked in C08 with the real DPoS status.",
       "The refusal of forks BELOW the irreversible block is C08's; the adoption of forks AT or above it is judged here in the DPoS unit (blocks are empty there, so only the best block is compared).")
_amend("C08", "level_text", "skips, or (n = 4 only, one faulty producer) also signs a second block on another parent; each block reaches",
       "skips, or (n = 4 only, one faulty producer) also signs a second block on another parent and later keeps extending that private branch in its own slots; in attack runs the correct producers fall silent a drawn number of slots after the fork (in \"precise\" attacks they all produce and deliver at once until then, and the run is prolonged to up to 90 slots) so that the private branch outgrows the main chain with the irreversible block just below, at or above the fork point; each block reaches")
_amend("C08", "level_text", "is followed up to the tip by blocks of at least 2n/3+1 distinct producers,",
       "is, at the moment it advances, followed up to the tip by blocks of at least 2n/3+1 distinct producers,")
_amend("C08", "level_text", "after a restart the restored LIB equals the one reported before.",
       "after a restart the restored LIB equals the one reported before. A scripted regression replays the history that exposed the stale pre-LIB proposals (fixed).")
_amend("C13", "level_text", "removals, blocks built from the pool's own offer or from outside transactions, and real reorganisations of depth 1-3 of the node;",
       "removals, evictions of accounts made to look idle (any subset, with or without held-aside transactions), blocks built from the pool's own offer or from outside transactions, and real reorganisations of depth 1-3 of the node;")
_amend("C13", "level_text", "and each submission is accepted iff its nonce is above the state nonce and neither the nonce slot nor the hash is taken.",
       "and each submission is accepted iff its nonce is above the state nonce and neither the nonce slot nor the hash is taken; an eviction takes or leaves an idle account as a whole and touches no other. Concurrent unit: 2-6 goroutines submit / remove / query while one more fetches from the pool, produces and connects 0-3 blocks on the node and hands the pool the notifications; all invariants must hold at quiescence, and in the thorough tier the race detector must report nothing in pool code.")
_amend("C13", "level_note", "Eviction by age uses the wall clock and is exercised only in the thorough tier with a shimmed period.",
       "Eviction by age uses the wall clock: idleness is fabricated by back-dating an account's list (shim), and since the eviction run gives up after 4 ms the oracle does not demand that an idle account is gone. Race reports outside pool code (third-party actor mailbox) are set aside by the driver.")
_amend("C17", "technique", "late, never, stale-session answers); history invariants",
       "late, never, stale-session answers; a loss-only mode where requests are only lost or delayed); history invariants")
_amend("C17", "level_text", "the session ends (within 25 s) not running, success implies the target height, a run with only delays / stale answers must succeed, and a second fault-free session reaches the remote tip.",
       "the session ends — it is a stall when the syncer is still running and has sent no request for 8 s — not running, success implies the target height, a run with only delays / stale answers must succeed (unless it ended on one of the syncer's own response timers), and a second fault-free session reaches the remote tip.")
_amend("C17", "level_note", "A run that does not end within 25 s is reported as a violation only because the unchanged tree never needed more than 3 s in 50 000 runs; set VERIF_C17_DEADLINE to change it.",
       "Stall detection is progress-based (a live session re-sends a lost block request every 250 ms and the harness releases delayed answers as soon as the syncer goes quiet); a session still exchanging messages after 90 s is skipped, not judged. The hash fetcher keeps its production timer (shortened only when a hash answer is made invalid, which it notices by timing out).")

_amend("C17", "technique", "fault-schedule PBT (rapid) against the real Syncer",
       "PBT (rapid) of the anchor exchange between two real chain services (local anchors -> remote ancestor answer) over generated fork shapes, and fault-schedule PBT (rapid) against the real Syncer")
_amend("C17", "level_text", "Local / remote stub chains (highest shared block 0-12",
       "Anchor unit: real chain services L and R sharing a prefix of 0-40 blocks, with 0-70 (sometimes 470-540, so that the lowest anchor is not genesis) own blocks on L and 0-40 on R, R additionally holding up to 24 blocks of L's branch as an unadopted side branch; L's anchors must be its main-chain hashes in strictly descending order from its best block, and R's answer must be the highest anchor that lies on R's main chain ('no ancestor' only when none does). Syncer unit: local / remote stub chains (highest shared block 0-12")
_amend("C13", "level_text", "Size() and the unconfirmed report equal recomputed totals,",
       "Size() and the unconfirmed report equal recomputed totals, a fetch with a small drawn byte budget (transactions of about 150 and 1350 bytes are mixed) returns per account a gap-free prefix of the run and fits the budget,")
_amend("C16", "level_text", "Part A:", "Part A (hard states are persisted on their own or through SaveEntry with an empty entry batch; followers' Next runs ahead of Match when entries are in flight):") if "Part A:" in PROPS["C16"]["level_text"] else None

_amend("C05", "level_text", "Exhaustive unit: every arrival permutation of every tree shape with up to 4 blocks (quick) / 5 (thorough).",
       "Exhaustive unit: every arrival order of fixed tree shapes (linear, two branches, side block, overtaking side branches, three tips) with up to 4 blocks (quick) / 6 (thorough), each shape also with a wrong state root in the first or last block (quick) / in every block in turn (thorough); besides the invariants the best block must never be an invalid block or built on one.")

_amend("C19", "level_text", "and every stored form must read back equal.",
       "and every stored form must read back equal. Restart unit: a real node makes 0-14 blocks under a hardfork table and is then started again 2-7 times with tables drawn (with repetition) from a pool (the original, tables that only move future forks, tables that move or add a fork at or below the best block) through the real start-up path on its stores; accepted only if every existing height keeps its version, a refusal leaves no trace (refused again later, the original still accepted), the chain opens intact afterwards.")
_amend("C09", "level_text", "foreign/other-slot signers and timestamp shifts.",
       "foreign/other-slot signers and timestamp shifts; and child-before-parent deliveries to the real chain service, where a child signed by the wrong key or altered after signing waits as an orphan and must not be on the main chain once its legitimate parent has arrived.")
_amend("C14", "level_text", "Generated hostile transactions:",
       "Generated hostile transactions (in a sixth of the private-network cases a history of 2-8 enterprise configuration calls whose address arguments include names and special accounts, so that what one call stores is what the next one reads):")
_amend("C11", "level_note", "", "") if False else None

_amend("C13", "level_text", "and real reorganisations of depth 1-3 of the node;",
       "real reorganisations of depth 1-3 of the node and longer branches whose last block is invalid (the roll-forward fails half way, the node stays on its chain); in a third of the cases user 0 registers an account name in the first block, transactions are also submitted under the name (signed by the holder: accepted; by anybody else: refused) and blocks hand the name to another account;")
_amend("C13", "level_text", "hashes are unique and the hash index equals the held set,",
       "hashes are unique and the hash index equals the held set, no list holds a transaction sent under a name that stands for another account in the current state (resolved with the name contract's own reader),")


_amend("C15", "level_text", "name create/update and transfers, executed one transaction at a time",
       "name create/update and transfers (in one case out of six also the inputs of the recorded findings: unknown command names, plain payments to the staking account, a producer vote with a 156-byte peer id that repeats a producer's id; a case ends when one of them is executed, the other cases explore behind them), executed one transaction at a time")

_amend("C18", "level_text", "(a) sequences of 1-6 messages",
       "(b2) the status exchange of EVERY accepted protocol version (2.0.0, 0.3.3, 0.3.2, 0.3.1), with the handshaker the node's real version manager hands out: a status differing in one field (genesis hash by one bit / another chain's genesis / none, peer id, chain id fields) must be refused; (c2) block-produced notices through the real notice handler and the real sync manager: 0-3 notices that announce other content (own key, oversized, other header) under the identifier of a genuine block, then the producer's notice of the genuine block, which must reach the chain service; (a) sequences of 1-6 messages")

_amend("C03", "level_text", "and valid blocks are still accepted afterwards.",
       "and valid blocks are still accepted afterwards; (c) a DPoS node that, before some blocks of a canonical chain made by a reference node, builds a block of its own from the transactions of the coming blocks and loses it (refused as stale after the network's block, or given up): it must accept every block of the canonical chain, and after each block its in-memory voting power ranking and active system parameters must be those loaded from the state of its best block.")
_amend("C03", "technique", "on a real node", "on a real node; differential of a producing-and-losing node against the canonical chain of a reference node")


_amend("C17", "level_text", "Syncer unit: local / remote stub chains (highest shared block 0-12,",
       "Syncer unit: local / remote stub chains (highest shared block 0-12, in a fifth of the cases 497-537 so that the lowest of the 32 anchors is not genesis; the anchor question may be answered 'none' although anchors match - how a busy peer's error status reaches the finder - and the full scan must then still arrive at the highest shared block;")

_amend("C01", "level_text", "failing and to-be-skipped transactions)", "failing and to-be-skipped transactions; in a fifth of the cases a fee-delegating contract that, through a name pointed at it by its creator, is itself the sender of fee-delegated calls)")

_amend("C02", "level_text", "state root, receipts root and receipts bytes must equal the producer's every time.",
       "state root, receipts root and receipts bytes must equal the producer's every time. Raft unit: blocks with generated mixes of enterprise changeCluster requests (add / remove, malformed, by the admin and by others), admin changes and transfers are built on a node whose consensus layer answers like the raft leader and must be connected with the same roots by a node whose consensus layer answers like a follower.")

_amend("C11", "level_text", "then attacked by ~15 corruption/transplant families;", "then attacked by ~17 corruption/transplant families (among them audit path elements that are not hashes: the tail of a present key's own leaf preimage; keys are drawn with a zero first byte in a quarter of the cases); the empty trie must yield accepted absence proofs; at StateDB level also variables of accounts WITHOUT storage (key possibly another account's id) must be proved absent against the empty storage root;")

_amend("C08", "level_text", "n = 1..4 producers, each running a real node;", "Failed-reorganisation unit: 3-5 producers, a main chain by one of them (nothing irreversible), a longer branch by the others that arrives children-first with an INVALID last block (the roll-forward moves the finality status along the branch and then fails), later completed by the valid block and extended: LIB on the own main chain after every delivery, and the completed branch adopted. Main unit: n = 1..4 producers, each running a real node;")

_amend("C04", "level_text", "and no block with a forged tx is ever on the main chain.", "and no block with a forged tx is ever on the main chain. Block-path unit: on a chain where a name is registered and handed on 0-2 times, generated transactions under an address or under the name, signed by the right or a wrong key, are put to the block path's signature check with the pool answering 'known' or 'unknown': 'verified' only for the sender's key or the key of the name's owner in the node's state.")

_amend("C06", "level_text", "Scenarios = generated block trees", "Scenarios (a third of the DPoS ones with the voting reward switched on and blocks biased towards stakes and votes, so that what the consensus derives in memory from executed transactions matters after a recovery) = generated block trees")
