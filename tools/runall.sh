#!/bin/bash
# usage: tools/runall.sh [tier] [seed]  — runs every registered check once and prints one line per property
T=${1:-quick}; S=${2:-1}
cd /verif
for id in $(python3 -c "import json;print(' '.join(c['property_id'] for c in json.load(open('MANIFEST.json'))['checks']))"); do
  t0=$(date +%s)
  out=$(VERIF_SEED=$S VERIF_NOEVIDENCE=${NOEV:-1} ./check $id --tier $T 2>&1); rc=$?
  echo "$id tier=$T seed=$S exit=$rc wall=$(( $(date +%s)-t0 ))s $(echo "$out" | grep -c '^VIOLATION') violations; $(echo "$out" | grep -m1 'inconclusive\|infrastructure' | cut -c1-120)"
done
