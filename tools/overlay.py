"""Builds the `go build -overlay` description from the CURRENT /repo working tree.

Nothing in /repo is modified. The overlay
  * replaces the un-buildable cgo half of package `contract` by /verif/stub/contract_stub.go
    and keeps the real contract.go (derived on every run from the working-tree file with only
    its unused `import "C"` line removed), errors.go and statesql_params.go;
  * injects /verif/tests/<pkg>/*.go as zz_verif_*.go into /repo/<pkg>/ (in-package tests and
    `//go:build verif` shims);
  * adds the virtual packages github.com/aergoio/aergo/v2/verifx/<name> from /verif/harness/<name>.
A -modfile copy of /repo/go.mod with pgregory.net/rapid v1.3.0 added is written next to it, so
/repo/go.mod and /repo/go.sum are never touched.
"""
import os, json, re

KEEP_CONTRACT = {"contract.go", "errors.go", "statesql_params.go"}


def _write_if_changed(path, data):
    try:
        if open(path).read() == data:
            return
    except Exception:
        pass
    tmp = path + ".tmp%d" % os.getpid()
    with open(tmp, "w") as f:
        f.write(data)
    os.replace(tmp, path)


def build(repo, verif, outdir, variant="stub"):
    os.makedirs(outdir, exist_ok=True)
    rep = {}
    cdir = os.path.join(repo, "contract")
    if variant == "stub":
        for name in sorted(os.listdir(cdir)):
            p = os.path.join(cdir, name)
            if not os.path.isfile(p):
                continue
            if name.endswith(".c"):
                rep[p] = ""
            elif name.endswith(".go") and name not in KEEP_CONTRACT:
                rep[p] = ""
        src = open(os.path.join(cdir, "contract.go")).read()
        derived = re.sub(r'(?m)^import "C"[ \t]*\n', "", src, count=1)
        dpath = os.path.join(outdir, "contract_derived.go")
        _write_if_changed(dpath, derived)
        rep[os.path.join(cdir, "contract.go")] = dpath
        rep[os.path.join(cdir, "zz_verif_stub.go")] = os.path.join(verif, "stub", "contract_stub.go")
    if variant == "c20":
        # C20: the Go half of the VM (host callbacks, context handling) is transliterated from the CURRENT working
        # tree: cgo references C.x become identifiers c_x supplied by /verif/c20/cshim.go; the functions that
        # dereference C structs are dropped. Everything else that needs cgo is removed.
        import subprocess
        translit = ["vm_callback.go", "vm.go", "vm_state.go", "internal_operations.go", "lstate_factory.go", "hook.go"]
        drop = "luaCryptoVerifyProof,luaCryptoRlpToBytes,luaGetDbHandle,LuaGetDbHandleSnap,LuaGetDbSnapshot,Compile"
        gdir = os.path.join(outdir, "c20gen")
        os.makedirs(gdir, exist_ok=True)
        tool = os.path.join(outdir, "c20gen.bin")
        env = dict(os.environ, GOFLAGS="-mod=mod", GOPROXY="off", GOSUMDB="off", GOTOOLCHAIN="local")
        subprocess.check_call(["go", "build", "-o", tool, "."], cwd=os.path.join(verif, "tools", "c20gen"), env=env)
        subprocess.check_call([tool, cdir, gdir, drop] + translit, stdout=subprocess.DEVNULL)
        for name in sorted(os.listdir(cdir)):
            p = os.path.join(cdir, name)
            if not os.path.isfile(p):
                continue
            if name.endswith(".c") or name.endswith("_test.go"):
                rep[p] = ""
            elif name in translit:
                rep[p] = os.path.join(gdir, "t_" + name)
            elif name.endswith(".go") and name != "contract.go" and 'import "C"' in open(p).read():
                rep[p] = ""
        src = open(os.path.join(cdir, "contract.go")).read()
        derived = re.sub(r'(?m)^import "C"[ \t]*\n', "", src, count=1)
        dpath = os.path.join(outdir, "contract_derived.go")
        _write_if_changed(dpath, derived)
        rep[os.path.join(cdir, "contract.go")] = dpath
        for f in sorted(os.listdir(os.path.join(verif, "c20"))):
            if f.endswith(".go"):
                rep[os.path.join(cdir, "zz_verif_" + f)] = os.path.join(verif, "c20", f)
    # in-package tests and shims
    troot = os.path.join(verif, "tests")
    for d, _, files in os.walk(troot):
        rel = os.path.relpath(d, troot)
        for f in sorted(files):
            if not f.endswith(".go"):
                continue
            rep[os.path.join(repo, rel, "zz_verif_" + f)] = os.path.join(d, f)
    # virtual helper packages
    hroot = os.path.join(verif, "harness")
    for d, _, files in os.walk(hroot):
        rel = os.path.relpath(d, hroot)
        for f in sorted(files):
            if f.endswith(".go"):
                rep[os.path.join(repo, "verifx", rel, f)] = os.path.join(d, f)
    ovjson = os.path.join(outdir, "overlay.json")
    _write_if_changed(ovjson, json.dumps({"Replace": rep}, indent=1, sort_keys=True))
    # alternate go.mod / go.sum
    mod = open(os.path.join(repo, "go.mod")).read()
    if "pgregory.net/rapid" not in mod:
        mod += "\nrequire pgregory.net/rapid v1.3.0\n"
    modfile = os.path.join(outdir, "repo.mod")
    _write_if_changed(modfile, mod)
    sumsrc = open(os.path.join(repo, "go.sum")).read()
    extra = os.path.join(verif, "tools", "extra.sum")
    if os.path.exists(extra):
        sumsrc += open(extra).read()
    sumfile = os.path.join(outdir, "repo.sum")
    # keep lines go itself may have added earlier (sorted union)
    lines = set(sumsrc.splitlines())
    try:
        lines |= set(open(sumfile).read().splitlines())
    except Exception:
        pass
    _write_if_changed(sumfile, "\n".join(sorted(l for l in lines if l.strip())) + "\n")
    return ovjson, modfile
