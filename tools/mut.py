#!/usr/bin/env python3
"""usage: tools/mut.py <repo-relative-file> <old-text> <new-text> <ID> [<ID>...]
Creates a scratch worktree of /repo, replaces exactly one occurrence of old-text by new-text in the file,
runs the quick checks of the given properties against it and removes the worktree. Prints verdict lines."""
import sys, os, subprocess, tempfile, shutil
f, old, new, ids = sys.argv[1], sys.argv[2], sys.argv[3], sys.argv[4:]
wt = tempfile.mkdtemp(prefix="verif_mut_", dir="/tmp")
os.rmdir(wt)
subprocess.check_call(["git", "-C", "/repo", "worktree", "add", "-q", "--detach", wt, "HEAD"], stdout=subprocess.DEVNULL, stderr=subprocess.DEVNULL)
bd = "/verif/.build/mut_%d" % os.getpid()
try:
    p = os.path.join(wt, f)
    s = open(p).read()
    if s.count(old) != 1:
        print("MUT-ERROR: old text occurs %d times in %s" % (s.count(old), f)); sys.exit(2)
    open(p, "w").write(s.replace(old, new))
    for i in ids:
        env = dict(os.environ, VERIF_REPO=wt, VERIF_NOEVIDENCE="1", VERIF_BUILD=bd, VERIF_PAR=os.environ.get("VERIF_PAR", "8"))
        r = subprocess.run(["/verif/check", i, "--tier", os.environ.get("TIER", "quick")], env=env, stdout=subprocess.PIPE, stderr=subprocess.PIPE, text=True)
        nv = r.stdout.count("VIOLATION")
        tail = [l for l in r.stderr.splitlines() if "BUILD FAILED" in l or l.startswith("[check] %s tier" % i)]
        msg = ""
        for l in r.stderr.splitlines():
            if ("zz_verif" in l and ("Fatal" in l or ": " in l) and "draw" not in l and "[rapid]" not in l):
                msg = l.strip()[:260]; break
        print("MUT %s [%s -> %s] %s: exit=%d violations=%d %s | %s" % (f, old.strip()[:40].replace("\n"," "), new.strip()[:40].replace("\n"," "), i, r.returncode, nv, " ".join(tail)[-120:], msg))
finally:
    subprocess.call(["git", "-C", "/repo", "worktree", "remove", "--force", wt], stdout=subprocess.DEVNULL, stderr=subprocess.DEVNULL)
    shutil.rmtree(bd, ignore_errors=True)
