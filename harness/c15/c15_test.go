//go:build verif

package c15

// C15 — governance accounting. A generated history of stake / unstake / producer vote /
// parameter vote / name create / name update / transfers by several accounts is executed
// transaction by transaction through the real executor on VIRTUAL block heights that jump
// across the 86400-block staking and voting lock periods. After every block the stored
// governance data is compared with an independent reference model written from the property
// statement, and the stated invariants are checked on the stored data itself.

import (
	"bytes"
	"encoding/json"
	"fmt"
	"math/big"
	"sort"
	"strings"
	"testing"

	"github.com/aergoio/aergo/v2/config"
	"github.com/aergoio/aergo/v2/contract"
	"github.com/aergoio/aergo/v2/contract/name"
	"github.com/aergoio/aergo/v2/contract/system"
	"github.com/aergoio/aergo/v2/internal/enc/base58"
	"github.com/aergoio/aergo/v2/state/statedb"
	"github.com/aergoio/aergo/v2/types"
	"github.com/aergoio/aergo/v2/verifx/ev"
	"github.com/aergoio/aergo/v2/verifx/vnode"
	"pgregory.net/rapid"
)

const delay = 86400

type mVote struct {
	cands  []string // candidate keys (base58 peer ids, or the decimal value for parameter votes)
	amount *big.Int
}

type mAcc struct {
	stake      *big.Int
	when       uint64
	everStaked bool
	votes      map[string]*mVote // issue id -> vote
}

type model struct {
	atStart map[string]bool // names that existed when the current block started
	acc     map[int]*mAcc
	total   *big.Int
	names   map[string]int // name -> owner key index
	min     *big.Int
	price   *big.Int
}

func (m *model) a(i int) *mAcc {
	if m.acc[i] == nil {
		m.acc[i] = &mAcc{stake: new(big.Int), votes: map[string]*mVote{}}
	}
	return m.acc[i]
}

// tallies computes, from the votes alone, what every candidate's tally must be.
func (m *model) tallies(issue string) map[string]*big.Int {
	out := map[string]*big.Int{}
	for _, a := range m.acc {
		v := a.votes[issue]
		if v == nil {
			continue
		}
		for _, c := range v.cands {
			if out[c] == nil {
				out[c] = new(big.Int)
			}
			out[c].Add(out[c], v.amount)
		}
	}
	return out
}

type op struct {
	kind   string
	from   int
	amount *big.Int
	cands  []string
	issue  string
	name   string
	to     int
	extra  []string // producer vote: further candidate strings sent in the transaction that are not 39-byte producer ids
}

func (o op) String() string {
	switch o.kind {
	case "stake", "unstake":
		return fmt.Sprintf("%s(u%d,%s)", o.kind, o.from, new(big.Int).Div(o.amount, vnode.Aergo))
	case "votebp":
		var cs []string
		for _, c := range o.cands {
			cs = append(cs, c[len(c)-4:])
		}
		if len(o.extra) > 0 {
			cs = append(cs, fmt.Sprintf("<a %d-byte id that repeats the first candidate>", len(base58.DecodeOrNil(o.extra[0]))))
		}
		return fmt.Sprintf("voteBP(u%d,%s)", o.from, strings.Join(cs, "+"))
	case "votedao":
		return fmt.Sprintf("voteDAO(u%d,%s=%s)", o.from, o.issue, o.cands[0])
	case "unknown-cmd":
		return fmt.Sprintf("unknownCommand(u%d,%s)", o.from, o.name)
	case "transfer-to-staking":
		return fmt.Sprintf("transfer(u%d->aergo.system,%s)", o.from, new(big.Int).Div(o.amount, vnode.Aergo))
	case "name-create":
		return fmt.Sprintf("createName(u%d,%s,%s)", o.from, o.name, new(big.Int).Div(o.amount, vnode.Aergo))
	case "name-update":
		return fmt.Sprintf("updateName(u%d,%s->u%d)", o.from, o.name, o.to)
	default:
		return fmt.Sprintf("transfer(u%d->u%d)", o.from, o.to)
	}
}

func callInfo(nm string, args ...interface{}) []byte {
	if args == nil {
		args = []interface{}{}
	}
	b, _ := json.Marshal(map[string]interface{}{"Name": nm, "Args": args})
	return b
}

func (o op) tx(nonce uint64, cidHash []byte) *types.Tx {
	s := &vnode.TxSpec{From: o.from, Nonce: nonce, Amount: new(big.Int), Type: types.TxType_GOVERNANCE}
	switch o.kind {
	case "stake":
		s.Recipient, s.Payload, s.Amount = []byte(types.AergoSystem), callInfo("v1stake"), o.amount
	case "unstake":
		s.Recipient, s.Payload, s.Amount = []byte(types.AergoSystem), callInfo("v1unstake"), o.amount
	case "votebp":
		var args []interface{}
		for _, c := range o.cands {
			args = append(args, c)
		}
		for _, c := range o.extra {
			args = append(args, c)
		}
		s.Recipient, s.Payload = []byte(types.AergoSystem), callInfo("v1voteBP", args...)
	case "votedao":
		s.Recipient, s.Payload = []byte(types.AergoSystem), callInfo("v1voteDAO", o.issue, o.cands[0])
	case "unknown-cmd":
		// a command the system contract does not have
		s.Recipient, s.Payload = []byte(types.AergoSystem), callInfo(o.name)
	case "transfer-to-staking":
		// a plain transfer (no command) whose recipient is the staking system account
		s.Type, s.Recipient, s.Amount = types.TxType_TRANSFER, []byte(types.AergoSystem), o.amount
	case "name-create":
		s.Recipient, s.Payload, s.Amount = []byte(types.AergoName), callInfo("v1createName", o.name), o.amount
	case "name-update":
		s.Recipient, s.Payload, s.Amount = []byte(types.AergoName), callInfo("v1updateName", o.name, vnode.KeyN(o.to).Enc()), o.amount
	default:
		s.Type, s.Recipient, s.Amount = types.TxType_TRANSFER, vnode.KeyN(o.to).Addr, o.amount
	}
	return s.Build(cidHash)
}

// expect decides, from the property's rules, whether the operation must be accepted at block
// `now` (fork version ver) and applies it to the model if so.
func (m *model) expect(o op, now uint64, ver int32) bool {
	a := m.a(o.from)
	switch o.kind {
	case "stake":
		if a.everStaked && a.when+delay > now {
			return false
		}
		if new(big.Int).Add(a.stake, o.amount).Cmp(m.min) < 0 {
			return false
		}
		a.stake.Add(a.stake, o.amount)
		a.when, a.everStaked = now, true
		m.total.Add(m.total, o.amount)
		return true
	case "unstake":
		if a.stake.Sign() == 0 || o.amount.Cmp(a.stake) > 0 || a.when+delay > now {
			return false
		}
		rest := new(big.Int).Sub(a.stake, o.amount)
		if rest.Sign() != 0 && rest.Cmp(m.min) < 0 {
			return false
		}
		a.stake, a.when = rest, now
		m.total.Sub(m.total, o.amount)
		for _, v := range a.votes { // votes larger than the remaining stake shrink to it
			if v.amount.Cmp(rest) > 0 {
				v.amount = new(big.Int).Set(rest)
			}
		}
		return true
	case "votebp", "votedao":
		issue := "voteBP"
		if o.kind == "votedao" {
			issue = o.issue
			if ver < 2 {
				return false
			}
		}
		if a.stake.Sign() == 0 {
			return false
		}
		if a.votes[issue] != nil && a.when+delay > now {
			return false
		}
		a.votes[issue] = &mVote{cands: append([]string{}, o.cands...), amount: new(big.Int).Set(a.stake)}
		a.when = now
		return true
	case "name-create":
		if o.amount.Cmp(m.price) < 0 {
			return false
		}
		if _, taken := m.names[o.name]; taken {
			return false
		}
		m.names[o.name] = o.from
		return true
	case "name-update":
		if o.amount.Cmp(m.price) < 0 {
			return false
		}
		if owner, ok := m.names[o.name]; !ok || owner != o.from {
			return false
		}
		if !m.atStart[o.name] {
			return false // a name becomes updatable in the block after its creation
		}
		m.names[o.name] = o.to
		return true
	case "unknown-cmd":
		return false // not a command of the system contract
	}
	return true
}

func TestC15Governance(t *testing.T) {
	rec := ev.New("C15", "governance")
	defer rec.Flush()
	rapid.Check(t, func(t *rapid.T) {
		nusers := rapid.IntRange(2, 5).Draw(t, "nusers")
		nbps := rapid.IntRange(1, 3).Draw(t, "nbps")
		withKnownInputs := rapid.IntRange(0, 5).Draw(t, "knownInputs") == 0
		var hf config.HardforkConfig
		switch rapid.IntRange(0, 2).Draw(t, "hfmode") {
		case 0:
		case 1:
			hf = config.HardforkConfig{V2: 1 << 40, V3: 1 << 41, V4: 1 << 42, V5: 1 << 43}
		default:
			x := uint64(rapid.IntRange(1, 6).Draw(t, "hfstep")) * 40000
			hf = config.HardforkConfig{V2: x, V3: 2 * x, V4: 3 * x, V5: 4 * x}
		}
		opts := vnode.WorldOpts{Consensus: "dpos", Public: rapid.Bool().Draw(t, "public"), NUsers: nusers, NBPs: nbps, Hardfork: hf, Magic: "verif.c15", Rich: true}
		spec := vnode.NewSpec(opts)
		spec.VotingReward = true
		N, err := vnode.Open(spec, "")
		if err != nil {
			t.Fatal(err)
		}
		defer N.Remove()
		N.SwitchTo() // system parameters and the in-memory voting power ranking loaded ONCE, as at node start
		m := &model{acc: map[int]*mAcc{}, total: new(big.Int), names: map[string]int{}, min: new(big.Int).Set(vnode.StakeMin), price: new(big.Int).Set(vnode.Aergo)}
		root := N.Best().GetHeader().GetBlocksRootHash()
		now := uint64(0)
		nblocks := rapid.IntRange(2, 14).Draw(t, "nblocks")
		var hist []string
		classes := map[string]bool{}
		nontrivial := false
		tieOrder := map[string]bool{} // "issue|a|b": a was ranked before b while tied
		nonces := map[int]uint64{}
		// known finding vpr-votes-cast-before-v2: votes cast under fork version < 2 never enter the
		// voting power ranking, but changing them under version >= 2 subtracts them from it
		preV2Voter := map[int]bool{}
		preV2VoteTouched, vprKnownHit := false, false
		cands := []string{}
		for i := 0; i < rapid.IntRange(2, 5).Draw(t, "ncandidates"); i++ {
			cands = append(cands, vnode.BPN(i).Enc())
		}
		issues := []string{"BPCOUNT", "GASPRICE", "STAKINGMIN", "NAMEPRICE"}
		for b := 0; b < nblocks; b++ {
			now += uint64(rapid.SampledFrom([]int{1, 1, 7, delay - 1, delay, delay, delay, delay + 1, delay + 1, 2 * delay, 100000}).Draw(t, "jump"))
			ver := N.CS.VerifHardfork().Version(now)
			mode := contract.ChainService
			if rapid.Bool().Draw(t, "producerMode") {
				mode = contract.BlockFactory
			}
			vb := N.NewVBlock(root, now, int64(now)*1000000000, mode)
			m.atStart = map[string]bool{}
			ownerAtStart := map[string]int{}
			for nm, ow := range m.names {
				m.atStart[nm] = true
				ownerAtStart[nm] = ow
			}
			ntx := rapid.IntRange(1, 5).Draw(t, "ntx")
			var bdesc []string
			for k := 0; k < ntx; k++ {
				o := op{from: rapid.IntRange(0, nusers-1).Draw(t, "from")}
				a := m.a(o.from)
				kinds := []string{"stake", "stake", "unstake", "unstake", "votebp", "votebp", "votebp", "votedao", "votedao", "name-create", "name-update", "transfer"}
				if withKnownInputs {
					// the two inputs of the recorded findings end a case when they are executed, so they are only drawn
					// in one case out of six; the other cases explore behind them
					kinds = append(kinds, "unknown-cmd", "transfer-to-staking")
				}
				if rapid.IntRange(0, 9).Draw(t, "purposeful") < 7 {
					// purposeful mode: prefer the operation that can make progress from the model state
					unlocked := !a.everStaked || a.when+delay <= now
					switch {
					case a.stake.Sign() == 0 && unlocked:
						kinds = []string{"stake", "stake", "stake", "name-create", "name-update", "votebp"}
					case a.stake.Sign() == 0:
						kinds = []string{"name-create", "name-update", "name-update", "transfer", "stake"}
					case a.votes["voteBP"] == nil:
						kinds = []string{"votebp", "votebp", "votebp", "votedao", "name-update"}
					case unlocked:
						kinds = []string{"votebp", "votebp", "votedao", "unstake", "unstake", "unstake", "stake", "name-update"}
					default:
						kinds = []string{"votedao", "name-create", "name-update", "name-update", "transfer", "unstake", "votebp"}
					}
				}
				o.kind = rapid.SampledFrom(kinds).Draw(t, "kind")
				switch o.kind {
				case "stake":
					// 1208926 AERGO = 2^80 aer and 309485010 AERGO = 2^88 aer: amounts whose byte length differs
					o.amount = new(big.Int).Mul(big.NewInt(int64(rapid.SampledFrom([]int{9999, 10000, 10000, 10001, 20000, 1, 30000, 1300000, 2000000, 400000000}).Draw(t, "stakeAmt"))), vnode.Aergo)
				case "unstake":
					st := new(big.Int).Div(a.stake, vnode.Aergo).Int64()
					choices := []int64{st, st, st, st / 2, st / 2, st - 10000, 1, st + 1, st - 9999, 10000, st - 1000000, st - 100000000}
					v := rapid.SampledFrom(choices).Draw(t, "unstakeAmt")
					if v < 0 {
						v = 0
					}
					o.amount = new(big.Int).Mul(big.NewInt(v), vnode.Aergo)
				case "votebp":
					n := rapid.IntRange(1, 3).Draw(t, "ncand")
					if n > len(cands) {
						n = len(cands)
					}
					seen := map[int]bool{}
					for len(o.cands) < n {
						c := rapid.IntRange(0, len(cands)-1).Draw(t, "cand")
						if !seen[c] {
							seen[c] = true
							o.cands = append(o.cands, cands[c])
						}
					}
					if withKnownInputs && rapid.IntRange(0, 3).Draw(t, "longCand") == 0 {
						// a syntactically valid peer id (identity multihash) of 4 x 39 bytes: 3 filler bytes of header, 36
						// filler bytes, then the first candidate's 39 bytes three times
						first := base58.DecodeOrNil(o.cands[0])
						long := append([]byte{0x00, 0x99, 0x01}, bytes.Repeat([]byte{0x2a}, 36)...)
						for r := 0; r < 3; r++ {
							long = append(long, first...)
						}
						o.extra = []string{base58.Encode(long)}
					}
				case "votedao":
					o.issue = rapid.SampledFrom(issues).Draw(t, "issue")
					switch o.issue {
					case "BPCOUNT":
						o.cands = []string{rapid.SampledFrom([]string{"3", "5", "13"}).Draw(t, "val")}
					case "GASPRICE":
						o.cands = []string{rapid.SampledFrom([]string{"50000000000", "60000000000", "1"}).Draw(t, "val")}
					case "STAKINGMIN":
						o.cands = []string{vnode.StakeMin.String()} // keeps the parameter at its value even when the vote passes
					default:
						o.cands = []string{vnode.Aergo.String()}
					}
				case "transfer-to-staking":
					o.amount = new(big.Int).Mul(big.NewInt(int64(rapid.IntRange(0, 20).Draw(t, "amt"))), vnode.Aergo)
				case "unknown-cmd":
					o.name = rapid.SampledFrom([]string{"v1Stake", "v1voteBp", "v2stake", "v1unknown", "stake", ""}).Draw(t, "unknownName")
				case "name-create":
					o.name = fmt.Sprintf("name%08d", rapid.IntRange(0, 3).Draw(t, "nameIdx"))
					o.amount = new(big.Int).Mul(big.NewInt(int64(rapid.SampledFrom([]int{1, 1, 1, 0, 2}).Draw(t, "nameAmt"))), vnode.Aergo)
				case "name-update":
					o.name = fmt.Sprintf("name%08d", rapid.IntRange(0, 3).Draw(t, "nameIdx"))
					o.to = rapid.IntRange(0, nusers-1).Draw(t, "newOwner")
					// senders of interest: the current owner, and whoever owned the name when the block started
					switch rapid.IntRange(0, 3).Draw(t, "updSender") {
					case 0, 1:
						if ow, ok := m.names[o.name]; ok {
							o.from = ow
						}
					case 2:
						if ow, ok := ownerAtStart[o.name]; ok {
							o.from = ow
						}
					}
					a = m.a(o.from)
					o.amount = new(big.Int).Mul(big.NewInt(int64(rapid.SampledFrom([]int{1, 1, 1, 0}).Draw(t, "nameAmt"))), vnode.Aergo)
				default:
					o.to = rapid.IntRange(0, nusers-1).Draw(t, "to")
					o.amount = new(big.Int).Mul(big.NewInt(int64(rapid.IntRange(0, 20).Draw(t, "amt"))), vnode.Aergo)
				}
				tx := o.tx(nonces[o.from]+1, vb.ChainIDHash())
				preStake := new(big.Int).Set(a.stake)
				preVotes := 0
				for _, v := range a.votes {
					if v.amount.Sign() > 0 {
						preVotes++
					}
				}
				senderBefore, _ := vb.BS.GetAccountState(types.ToAccountID(vnode.KeyN(o.from).Addr))
				out := vb.Apply(tx)
				if out.Panic != nil {
					t.Fatalf("block %d (height %d, v%d): %s panicked: %v\n%s\nhistory: %s", b, now, ver, o, out.Panic, out.Stack, strings.Join(hist, " | "))
				}
				got := out.Kind() == "success"
				if len(o.extra) > 0 {
					if !got {
						bdesc = append(bdesc, fmt.Sprintf("%s=false", o))
						continue // refusing a candidate list with a malformed id is always legitimate
					}
					if rec.IsKnown("votebp-candidate-multiple-of-39-bytes") {
						// known finding: the long id is cut into 39-byte pieces and each piece is booked as a candidate (the
						// model is not continued: the tally equation fails at the block boundary)
						rec.Excluded("votebp-candidate-multiple-of-39-bytes")
						return
					}
				}
				want := false
				if o.amount != nil && (o.kind == "stake" || o.kind == "name-create" || o.kind == "name-update" || o.kind == "transfer" || o.kind == "transfer-to-staking") &&
					new(big.Int).SetBytes(senderBefore.Balance).Cmp(o.amount) < 0 {
					// cannot pay the amount: refused whatever the governance rules say (fees are not modelled: on
					// public networks the balances used here leave ample room for them)
				} else {
					want = m.expect(o, now, ver)
				}
				if o.kind == "unknown-cmd" && got && rec.IsKnown("unknown-system-command-runs-as-producer-vote") {
					// known finding: executed as a producer vote without candidates (the model is not continued)
					rec.Excluded("unknown-system-command-runs-as-producer-vote")
					return
				}
				if o.kind == "transfer-to-staking" && got && o.amount.Sign() > 0 && rec.IsKnown("plain-transfer-to-staking-account") {
					// known finding: the staking account now holds coins that no stake record covers (the model is not
					// continued: the balance equation fails at every later block boundary)
					rec.Excluded("plain-transfer-to-staking-account")
					return
				}
				if got != want {
					t.Fatalf("block %d (height %d, fork version %d): %s was %s (err %v) but by the governance rules it must be %s\nmodel of the sender: stake=%s last action at %d\nhistory: %s | %s",
						b, now, ver, o, out.Kind(), out.Err, map[bool]string{true: "accepted", false: "refused"}[want], new(big.Int).Div(preStake, vnode.Aergo), a.when, strings.Join(hist, " | "), strings.Join(bdesc, ","))
				}
				if got {
					nonces[o.from]++
					if (o.kind == "votebp" || o.kind == "votedao") && ver < 2 {
						preV2Voter[o.from] = true
					}
					if (o.kind == "votebp" || o.kind == "votedao" || o.kind == "unstake") && ver >= 2 && preV2Voter[o.from] {
						preV2VoteTouched = true
					}
					if o.kind == "unstake" {
						// unstaking returns exactly the requested amount (governance txs carry no fee)
						senderAfter, _ := vb.BS.GetAccountState(types.ToAccountID(vnode.KeyN(o.from).Addr))
						d := new(big.Int).Sub(new(big.Int).SetBytes(senderAfter.Balance), new(big.Int).SetBytes(senderBefore.Balance))
						if d.Cmp(o.amount) != 0 {
							t.Fatalf("block %d: %s returned %s to the account instead of the requested amount", b, o, d)
						}
						if preVotes > 0 && o.amount.Cmp(preStake) < 0 {
							classes["partial-unstake-shrinks-votes"] = true
							nontrivial = true
						}
						if preVotes > 0 && o.amount.Cmp(preStake) == 0 {
							classes["full-unstake-with-votes"] = true
						}
					}
					classes["ok:"+o.kind] = true
				} else {
					classes["refused:"+o.kind] = true
				}
				bdesc = append(bdesc, fmt.Sprintf("%s=%v", o, got))
			}
			hist = append(hist, fmt.Sprintf("h%d v%d [%s]", now, ver, strings.Join(bdesc, ",")))
			newRoot, err := vb.Finish(false, nil)
			if err != nil {
				t.Fatalf("finish block: %v", err)
			}
			system.CommitParams(true) // what the consensus does when a block is connected
			root = newRoot
			where := "after block " + hist[len(hist)-1] + "\nhistory: " + strings.Join(hist, " | ")

			// ---- stored data vs model and invariants ------------------------------------------
			sdb := N.CS.SDB().OpenNewStateDB(root)
			scs, err := statedb.GetSystemAccountState(sdb)
			if err != nil {
				t.Fatal(err)
			}
			d, err := N.DumpAt(root)
			if err != nil {
				t.Fatalf("dump: %v", err)
			}
			total, err := system.GetStakingTotal(scs)
			if err != nil {
				t.Fatal(err)
			}
			sum := new(big.Int)
			for i := 0; i < nusers; i++ {
				st, err := system.GetStaking(scs, vnode.KeyN(i).Addr)
				if err != nil {
					t.Fatal(err)
				}
				sum.Add(sum, st.GetAmountBigInt())
				ma := m.a(i)
				if st.GetAmountBigInt().Cmp(ma.stake) != 0 {
					t.Fatalf("stake of u%d is recorded as %s, the operations performed amount to %s: %s", i, st.GetAmountBigInt(), ma.stake, where)
				}
				for _, issue := range system.VerifIssueIDs() {
					v, err := system.GetVote(scs, vnode.KeyN(i).Addr, system.VerifIssueKey(issue))
					if err != nil {
						t.Fatal(err)
					}
					if v.GetAmountBigInt().Cmp(st.GetAmountBigInt()) > 0 {
						t.Fatalf("u%d's recorded voting amount %s on %s exceeds its stake %s: %s", i, v.GetAmountBigInt(), issue, st.GetAmountBigInt(), where)
					}
					mv := ma.votes[issue]
					if mv == nil {
						if v.Amount != nil && v.GetAmountBigInt().Sign() != 0 {
							t.Fatalf("u%d never voted on %s but a vote of %s is recorded: %s", i, issue, v.GetAmountBigInt(), where)
						}
						continue
					}
					if v.GetAmountBigInt().Cmp(mv.amount) != 0 {
						t.Fatalf("u%d's vote on %s is recorded with amount %s, expected %s: %s", i, issue, v.GetAmountBigInt(), mv.amount, where)
					}
				}
			}
			if total.Cmp(sum) != 0 || total.Cmp(m.total) != 0 {
				t.Fatalf("recorded staking total %s, sum of individual stakes %s, expected %s: %s", total, sum, m.total, where)
			}
			if bal := d.Balance([]byte(types.AergoSystem)); bal.Cmp(total) != 0 {
				t.Fatalf("staking account holds %s but the recorded staking total is %s: %s", bal, total, where)
			}
			// tallies and ranking
			for _, issue := range system.VerifIssueIDs() {
				list, err := system.VerifVoteList(scs, issue)
				if err != nil {
					t.Fatal(err)
				}
				want := m.tallies(issue)
				seen := map[string]bool{}
				var prev *big.Int
				var row []string
				for _, v := range list.GetVotes() {
					key := string(v.Candidate)
					if issue == "voteBP" {
						key = base58.Encode(v.Candidate)
					}
					if seen[key] {
						t.Fatalf("ranking of %s lists candidate %s twice: %s", issue, key, where)
					}
					seen[key] = true
					amt := v.GetAmountBigInt()
					w := want[key]
					if w == nil {
						w = new(big.Int)
					}
					if amt.Cmp(w) != 0 {
						t.Fatalf("tally of candidate %s on %s is %s, the recorded votes for it sum to %s: %s", key, issue, amt, w, where)
					}
					if prev != nil && amt.Cmp(prev) > 0 {
						t.Fatalf("ranking of %s is not in descending tally order: %s", issue, where)
					}
					if prev != nil && amt.Cmp(prev) == 0 && amt.Sign() > 0 {
						classes["tie"] = true
						nontrivial = true
					}
					prev = amt
					row = append(row, key)
				}
				for c, w := range want {
					if w.Sign() > 0 && !seen[c] {
						t.Fatalf("candidate %s has votes (%s) on %s but is missing from the ranking: %s", c, w, issue, where)
					}
				}
				// a fixed total tie-break: two tied candidates keep their relative order for ever
				vs := list.GetVotes()
				for i := 0; i < len(vs); i++ {
					for j := i + 1; j < len(vs) && vs[j].GetAmountBigInt().Cmp(vs[i].GetAmountBigInt()) == 0; j++ {
						if tieOrder[issue+"|"+row[j]+"|"+row[i]] {
							t.Fatalf("candidates %s and %s on %s are tied again but now ranked in the opposite order: %s", row[i], row[j], issue, where)
						}
						tieOrder[issue+"|"+row[i]+"|"+row[j]] = true
					}
				}
			}
			// in-memory voting power ranking vs the one rebuilt from the stored state
			if eq, memTotal, stTotal, err := system.VerifVPREqualsState(scs); vprKnownHit {
				// the ranking is already off because of the known finding: nothing more to learn from it
			} else if (err != nil || !eq) && preV2VoteTouched && rec.IsKnown("vpr-votes-cast-before-v2") {
				rec.Excluded("vpr-votes-cast-before-v2")
				classes["known:vpr-votes-cast-before-v2"] = true
				vprKnownHit = true
			} else if err != nil || !eq {
				t.Fatalf("in-memory voting power ranking (total %v) differs from the one rebuilt from state (total %v, err %v):\n%s\n%s", memTotal, stTotal, err, system.VerifVPRDescribe(scs), where)
			}
			// names
			ncs, err := statedb.GetNameAccountState(sdb)
			if err != nil {
				t.Fatal(err)
			}
			for i := 0; i < 4; i++ {
				nm := fmt.Sprintf("name%08d", i)
				owner := name.GetOwner(ncs, []byte(nm))
				if mo, ok := m.names[nm]; ok {
					if !bytes.Equal(owner, vnode.KeyN(mo).Addr) {
						t.Fatalf("name %s is owned by %x, expected u%d: %s", nm, owner, mo, where)
					}
				} else if owner != nil {
					t.Fatalf("name %s was never successfully created but has owner %x: %s", nm, owner, where)
				}
			}
		}
		var cl []string
		for c := range classes {
			cl = append(cl, c)
		}
		sort.Strings(cl)
		rec.Case(strings.Join(cl, ","), fmt.Sprintf("%+v|%s", opts, strings.Join(hist, "|")), nontrivial, func() interface{} {
			return map[string]interface{}{"public": opts.Public, "hardfork": fmt.Sprintf("%+v", opts.Hardfork), "history": hist}
		})
	})
}

// known: C15 vpr-votes-cast-before-v2 — deterministic reproduction
func TestC15KnownPreV2Vote(t *testing.T) {
	rec := ev.New("C15", "known-prev2-vote")
	defer rec.Flush()
	hf := config.HardforkConfig{V2: 100000, V3: 200000, V4: 300000, V5: 400000}
	opts := vnode.WorldOpts{Consensus: "dpos", Public: false, NUsers: 2, NBPs: 1, Hardfork: hf, Magic: "verif.c15k"}
	spec := vnode.NewSpec(opts)
	spec.VotingReward = true
	N, err := vnode.Open(spec, "")
	if err != nil {
		t.Fatal(err)
	}
	defer N.Remove()
	N.SwitchTo()
	root := N.Best().GetHeader().GetBlocksRootHash()
	run := func(no uint64, nonce uint64, o op) {
		vb := N.NewVBlock(root, no, int64(no)*1e9, contract.ChainService)
		out := vb.Apply(o.tx(nonce, vb.ChainIDHash()))
		if out.Kind() != "success" {
			t.Fatalf("harness: %s at height %d: %s %v %v", o, no, out.Kind(), out.Err, out.Panic)
		}
		r, err := vb.Finish(false, nil)
		if err != nil {
			t.Fatal(err)
		}
		system.CommitParams(true)
		root = r
	}
	run(1, 1, op{kind: "stake", from: 0, amount: vnode.StakeMin})
	run(2, 2, op{kind: "votebp", from: 0, cands: []string{vnode.BPN(0).Enc()}})          // fork version 0: not in the ranking
	run(100001, 3, op{kind: "votedao", from: 0, issue: "BPCOUNT", cands: []string{"3"}}) // version 2: in the ranking
	run(200002, 4, op{kind: "unstake", from: 0, amount: vnode.StakeMin})                 // shrinks both votes
	rec.Case("regression", "prev2-vote", true, func() interface{} { return "stake, voteBP@v0, voteDAO@v2, unstake@v3" })
	rec.Case("regression", "prev2-vote-2", true, func() interface{} { return "second fingerprint of the same history" })
	scs, err := statedb.GetSystemAccountState(N.CS.SDB().OpenNewStateDB(root))
	if err != nil {
		t.Fatal(err)
	}
	eq, mem, st, err := system.VerifVPREqualsState(scs)
	if err == nil && eq {
		return // the finding is gone
	}
	if rec.IsKnown("vpr-votes-cast-before-v2") {
		rec.Excluded("vpr-votes-cast-before-v2")
		return
	}
	t.Fatalf("in-memory voting power ranking (total %v) differs from the one rebuilt from state (total %v, err %v)\n%s", mem, st, err, system.VerifVPRDescribe(scs))
}

// known: C15 plain-transfer-to-staking-account and unknown-system-command-runs-as-producer-vote — deterministic
// reproductions (so that the KNOWN-FINDING lines do not depend on what the generator happens to draw)
func TestC15KnownSystemAccountInputs(t *testing.T) {
	rec := ev.New("C15", "known-system-account-inputs")
	defer rec.Flush()
	opts := vnode.WorldOpts{Consensus: "dpos", Public: false, NUsers: 2, NBPs: 1, Magic: "verif.c15s"}
	N, err := vnode.Open(vnode.NewSpec(opts), "")
	if err != nil {
		t.Fatal(err)
	}
	defer N.Remove()
	N.SwitchTo()
	root := N.Best().GetHeader().GetBlocksRootHash()
	run := func(no uint64, nonce uint64, o op) string {
		vb := N.NewVBlock(root, no, int64(no)*1e9, contract.ChainService)
		out := vb.Apply(o.tx(nonce, vb.ChainIDHash()))
		if out.Panic != nil {
			t.Fatalf("%s at height %d panicked: %v", o, no, out.Panic)
		}
		r, err := vb.Finish(false, nil)
		if err != nil {
			t.Fatal(err)
		}
		system.CommitParams(true)
		root = r
		return out.Kind()
	}
	if k := run(1, 1, op{kind: "stake", from: 0, amount: vnode.StakeMin}); k != "success" {
		t.Fatalf("harness: stake %s", k)
	}
	if k := run(2, 2, op{kind: "votebp", from: 0, cands: []string{vnode.BPN(0).Enc()}}); k != "success" {
		t.Fatalf("harness: vote %s", k)
	}
	open := func() *statedb.ContractState {
		scs, err := statedb.GetSystemAccountState(N.CS.SDB().OpenNewStateDB(root))
		if err != nil {
			t.Fatal(err)
		}
		return scs
	}
	// 1. a plain transfer to the staking account
	k1 := run(3, 1, op{kind: "transfer-to-staking", from: 1, amount: new(big.Int).Mul(big.NewInt(7), vnode.Aergo)})
	rec.Case("regression", "transfer-to-staking", true, func() interface{} { return "stake(u0), voteBP(u0), transfer(u1->aergo.system,7): " + k1 })
	total, err := system.GetStakingTotal(open())
	if err != nil {
		t.Fatal(err)
	}
	d, err := N.DumpAt(root)
	if err != nil {
		t.Fatal(err)
	}
	if bal := d.Balance([]byte(types.AergoSystem)); bal.Cmp(total) != 0 {
		if !rec.IsKnown("plain-transfer-to-staking-account") {
			t.Fatalf("after a plain transfer of 7 aergo to aergo.system (%s) the staking account holds %s but the recorded staking total is %s", k1, bal, total)
		}
		rec.Excluded("plain-transfer-to-staking-account")
	}
	// 2. an unknown command
	k2 := run(4, 3, op{kind: "unknown-cmd", from: 0, name: "v1Stake"})
	rec.Case("regression", "unknown-cmd", true, func() interface{} { return "stake(u0), voteBP(u0), unknownCommand(u0,v1Stake): " + k2 })
	if k2 == "success" {
		if !rec.IsKnown("unknown-system-command-runs-as-producer-vote") {
			t.Fatalf("the command \"v1Stake\", which the system contract does not have, was executed with success")
		}
		rec.Excluded("unknown-system-command-runs-as-producer-vote")
	}
	// 3. a producer vote by user 1 with a 156-byte peer id that repeats the producer's id three times
	if k := run(5, 2, op{kind: "stake", from: 1, amount: vnode.StakeMin}); k != "success" {
		t.Fatalf("harness: stake %s", k)
	}
	first := base58.DecodeOrNil(vnode.BPN(0).Enc())
	long := append([]byte{0x00, 0x99, 0x01}, bytes.Repeat([]byte{0x2a}, 36)...)
	for r := 0; r < 3; r++ {
		long = append(long, first...)
	}
	k3 := run(6, 3, op{kind: "votebp", from: 1, cands: []string{vnode.BPN(0).Enc()}, extra: []string{base58.Encode(long)}})
	rec.Case("regression", "long-candidate", true, func() interface{} { return "stake(u1), voteBP(u1, T + 156-byte id repeating T): " + k3 })
	if k3 == "success" {
		list, err := system.VerifVoteList(open(), "voteBP")
		if err != nil {
			t.Fatal(err)
		}
		for _, v := range list.GetVotes() {
			// user 0's vote for T was emptied by the unknown command above (or is still there): T's tally may be at most
			// the two stakes
			if bytes.Equal(v.Candidate, first) && v.GetAmountBigInt().Cmp(new(big.Int).Mul(big.NewInt(2), vnode.StakeMin)) > 0 {
				if !rec.IsKnown("votebp-candidate-multiple-of-39-bytes") {
					t.Fatalf("tally of the producer is %s after one vote of an account that staked %s", v.GetAmountBigInt(), vnode.StakeMin)
				}
				rec.Excluded("votebp-candidate-multiple-of-39-bytes")
			}
		}
	}
}
