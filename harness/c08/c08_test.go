//go:build verif

package c08

// C08 — DPoS finality. Several real nodes (chain service + real DPoS status and producer set)
// live in one process and are driven sequentially by a generated schedule: per slot the slot
// owner produces on ITS node's current best block (or skips, or — within the fault budget —
// equivocates on another parent), every block is delivered to every other node now, later
// (reordered) or never, and nodes restart at drawn points. Blocks are empty (so the process
// globals of the execution layer are never written), signed with the owner's key, and carry
// Confirms = no - (number of the owner's previous block), the rule of the block factory.
//
// Oracle (per node after every delivery, and across nodes): the reported LIB never decreases,
// lies on the node's main chain, is supported by blocks of more than 2n/3 distinct producers on
// the chain above it, nothing at or below it is ever replaced, blocks numbered at or below it
// are refused, the LIBs of any two nodes lie on one chain, and after a restart the restored LIB
// equals the one recomputed from the stored blocks.

import (
	"bytes"
	"fmt"
	"sort"
	"strings"
	"testing"

	"github.com/aergoio/aergo/v2/consensus/impl/dpos/slot"
	"github.com/aergoio/aergo/v2/types"
	"github.com/aergoio/aergo/v2/verifx/ev"
	"github.com/aergoio/aergo/v2/verifx/vnode"
	"pgregory.net/rapid"
)

type failer interface {
	Fatalf(format string, args ...interface{})
}

type sim struct {
	t                            failer
	spec                         *vnode.Spec
	n                            int
	nodes                        []*vnode.Node
	bpOf                         map[int]int       // producer index (slot owner) -> key index
	parent                       map[string]string // block hash -> parent hash (all blocks ever produced)
	height                       map[string]uint64 // block hash -> number
	signer                       map[string]int    // block hash -> key index of the producer
	blocks                       map[string]*types.Block
	lastNo                       []uint64 // per producer: number of its previous block
	libNo                        []uint64 // per node: highest LIB reported so far
	libID                        []string
	frozen                       []map[uint64]string // per node: main-chain hash per height at or below the LIB, once seen
	hist                         []string
	libAdvances, forks, restarts int
	// private branch of a misbehaving producer: its tip and the number of its previous block on it
	private               map[int]*types.Block
	privLast              map[int]uint64
	privateExt, overtakes int
	finality, forkChoice  bool // which oracles are judged (C08 / the irreversibility clause of C07)
}

func (s *sim) fail(format string, a ...interface{}) {
	if !s.finality {
		return // the finality clauses belong to C08 and are judged by its unit
	}
	s.t.Fatalf("%s\nhistory: %s", fmt.Sprintf(format, a...), strings.Join(s.hist, " | "))
}

// checkForkChoice: no branch that node x has stored completely, that is strictly longer than its main chain and
// that does not fork below its last irreversible block may be left unadopted (C07). The veto is decided with the LIB
// at the arrival that completed the branch, which is never above the current one, and the main chain never gets
// shorter, so the statement holds at every observation point.
func (s *sim) checkForkChoice(x int, where string) {
	nd := s.nodes[x]
	best := nd.Best()
	lib := s.libNo[x]
	onMain := func(h string) bool {
		got, err := nd.CS.GetHashByNo(s.height[h])
		return err == nil && string(got) == h
	}
	for h, b := range s.blocks {
		if b.BlockNo() <= best.BlockNo() {
			continue
		}
		complete := true
		cur := h
		for !onMain(cur) {
			if _, err := nd.CS.GetBlock([]byte(cur)); err != nil {
				complete = false
				break
			}
			cur = s.parent[cur]
			if cur == "" {
				complete = false
				break
			}
		}
		if !complete {
			continue
		}
		if root := s.height[cur]; root >= lib {
			s.t.Fatalf("%s: node %d has stored a complete branch up to block %d/%x that forks from its main chain at height %d (LIB %d), its best block is only %d/%x: a strictly longer valid branch that does not fork below the irreversible block was not adopted\nhistory: %s",
				where, x, b.BlockNo(), []byte(h)[:4], root, lib, best.BlockNo(), best.BlockHash()[:4], strings.Join(s.hist, " | "))
		}
	}
}

func (s *sim) isAncestor(anc, desc string) bool {
	for cur := desc; cur != ""; cur = s.parent[cur] {
		if cur == anc {
			return true
		}
		if s.height[cur] <= s.height[anc] {
			return false
		}
	}
	return false
}

// observe checks the finality invariants on node x.
func (s *sim) observe(x int, where string) {
	nd := s.nodes[x]
	no, id := nd.DPoS.VerifLIB()
	if no < s.libNo[x] {
		s.fail("%s: node %d reports LIB %d after having reported LIB %d", where, x, no, s.libNo[x])
	}
	best := nd.Best()
	if no > 0 {
		lb, err := nd.CS.CDB().GetBlockByNo(no)
		if err != nil || lb.ID() != id {
			s.fail("%s: node %d reports LIB %d/%s, but its main chain has another block at that height (err %v)", where, x, no, id, err)
		}
		// support, judged when the LIB advances: blocks of more than 2n/3 distinct producers from the LIB up to the
		// tip. (Later the node may legitimately switch to a longer branch forking exactly at the LIB, whose blocks
		// above it come from fewer producers: the block stays irreversible.)
		prod := map[int]bool{}
		cur := best
		for no > s.libNo[x] && cur.BlockNo() >= no && cur.BlockNo() > 0 {
			prod[s.signer[string(cur.BlockHash())]] = true
			p, err := nd.CS.GetBlock(cur.GetHeader().GetPrevBlockHash())
			if err != nil {
				s.fail("%s: node %d: main chain broken below %d", where, x, cur.BlockNo())
			}
			cur = p
		}
		if need := s.n*2/3 + 1; no > s.libNo[x] && len(prod) < need {
			s.fail("%s: node %d reports LIB %d although only %d distinct producers (of %d, %d needed) have blocks from it up to the tip %d", where, x, no, len(prod), s.n, need, best.BlockNo())
		}
	}
	if no > s.libNo[x] {
		s.libAdvances++
	}
	s.libNo[x], s.libID[x] = no, id
	// nothing at or below the LIB is ever replaced
	for h := uint64(1); h <= no; h++ {
		hash, err := nd.CS.GetHashByNo(h)
		if err != nil {
			s.fail("%s: node %d: no main chain block at height %d <= LIB %d", where, x, h, no)
		}
		if old, ok := s.frozen[x][h]; ok && old != string(hash) {
			s.fail("%s: node %d: the main chain block at height %d (at or below a reported LIB) was replaced", where, x, h)
		}
		s.frozen[x][h] = string(hash)
	}
	// LIBs of all nodes lie on one chain
	for y := range s.nodes {
		if y == x || s.libNo[y] == 0 || no == 0 {
			continue
		}
		a, b := s.frozen[x][no], s.frozen[y][s.libNo[y]]
		if !(s.isAncestor(a, b) || s.isAncestor(b, a)) {
			s.fail("%s: node %d holds irreversible block %d/%x and node %d holds irreversible block %d/%x on a conflicting branch", where, x, no, []byte(a)[:4], y, s.libNo[y], []byte(b)[:4])
		}
	}
}

func (s *sim) deliver(x int, b *types.Block, where string) {
	nd := s.nodes[x]
	nd.Enter()
	preLib := s.libNo[x]
	err := nd.AddPeer(b)
	if ev.IntEnv("VERIF_C08_TRACE", 0) > 0 {
		no, id := nd.DPoS.VerifLIB()
		fmt.Printf("TRACE %s: err=%v best=%d/%x lib=%d/%s\n", where, err, nd.Best().BlockNo(), nd.Best().BlockHash()[:4], no, id)
	}
	if b.BlockNo() <= preLib && err == nil {
		// refused blocks at or below the LIB: accepted only if it is the block already there
		if h, e := nd.CS.GetHashByNo(b.BlockNo()); e != nil || !bytes.Equal(h, b.BlockHash()) {
			s.fail("%s: node %d accepted block %d although its LIB is %d", where, x, b.BlockNo(), preLib)
		}
	}
	s.observe(x, where)
	if s.forkChoice {
		s.checkForkChoice(x, where)
	}
}

func TestC08Finality(t *testing.T) {
	rec := ev.New("C08", "finality")
	defer rec.Flush()
	rapid.Check(t, func(t *rapid.T) { simulate(t, rec, true, false) })
}

// TestC07DPoSForkChoice runs the same simulation and judges the fork-choice statement of C07 in the presence of the
// real finality veto: longer branches forking at or above the irreversible block are adopted (those below it are not:
// that half is C08's "never replaced").
func TestC07DPoSForkChoice(t *testing.T) {
	rec := ev.New("C07", "dpos-forkchoice")
	defer rec.Flush()
	rapid.Check(t, func(t *rapid.T) { simulate(t, rec, false, true) })
}

// newSim opens n real DPoS nodes sharing one genesis.
func newSim(t failer, n int, finality, forkChoice bool) *sim {
	opts := vnode.WorldOpts{Consensus: "dpos", Public: false, NUsers: 1, NBPs: n, Magic: "verif.c08"}
	spec := vnode.NewSpec(opts)
	spec.RealDPoS = true
	s := &sim{t: t, spec: spec, n: n, bpOf: map[int]int{}, parent: map[string]string{}, height: map[string]uint64{}, signer: map[string]int{}, blocks: map[string]*types.Block{},
		private: map[int]*types.Block{}, privLast: map[int]uint64{}, finality: finality, forkChoice: forkChoice}
	for i := 0; i < n; i++ {
		nd, err := vnode.Open(spec, "")
		if err != nil {
			t.Fatalf("open node %d: %v", i, err)
		}
		s.nodes = append(s.nodes, nd)
		s.frozen = append(s.frozen, map[uint64]string{})
	}
	s.libNo, s.libID, s.lastNo = make([]uint64, n), make([]string, n), make([]uint64, n)
	s.nodes[0].Enter()
	s.nodes[0].SwitchTo()
	for k := 0; k < n; k++ {
		idx := s.nodes[0].DPoS.VerifBpIndex(vnode.BPN(k).ID)
		if idx < 0 {
			t.Fatalf("harness: producer %d not in the genesis producer set", k)
		}
		s.bpOf[idx] = k
	}
	gen := s.nodes[0].Best()
	s.height[string(gen.BlockHash())] = 0
	return s
}

func (s *sim) close() {
	for _, nd := range s.nodes {
		nd.Remove()
	}
}

// mkBlock makes producer k's block on prev (built on node nd), with the confirmation range the block factory
// would put: its number minus the number of the producer's previous block.
func (s *sim) mkBlock(k int, nd *vnode.Node, prev *types.Block, ts int64, last uint64) *types.Block {
	nd.Enter()
	p, err := nd.Produce(prev, ts, nil, nil)
	if err != nil {
		s.t.Fatalf("produce: %v", err)
	}
	b := p.Block
	b.SetConfirms(b.BlockNo() - last)
	if err := b.Sign(vnode.BPN(k).Priv); err != nil {
		s.t.Fatalf("sign: %v", err)
	}
	b.Hash = nil
	b.Hash = b.BlockHash()
	h := string(b.BlockHash())
	s.parent[h], s.height[h], s.signer[h], s.blocks[h] = string(prev.BlockHash()), b.BlockNo(), k, b
	return b
}

// slotTime is the instant inside slot j at which its owner produces; slots lie in the past so that no block is
// "future", at a fixed instant: the schedule must not depend on the wall clock.
func slotTime(j int) int64 { return int64(1600000000)*1e9 + int64(j)*1e9 + 300e6 }

func (s *sim) ownerOf(j int) int {
	return s.bpOf[int(slot.NewFromUnixNano(slotTime(j)).NextBpIndex(uint16(s.n)))]
}

func simulate(t *rapid.T, rec *ev.Rec, finality, forkChoice bool) {
	{
		n := rapid.SampledFrom([]int{1, 2, 3, 4, 4, 4}).Draw(t, "producers") // only n=4 tolerates a misbehaving producer
		s := newSim(t, n, finality, forkChoice)
		defer s.close()
		spec := s.spec
		f := (n - 1) / 3
		equivocators := map[int]bool{}
		nslots := rapid.IntRange(4, 36).Draw(t, "slots")
		// from this slot on the correct producers mostly stay silent while a misbehaving one keeps extending its
		// private branch in its own slots: the only way such a branch can outgrow the main chain
		attackFrom := nslots + 1
		attack := f > 0 && rapid.Bool().Draw(t, "attack")
		// the silence starts a few slots after the fork (so that the irreversible block ends up anywhere around the
		// fork point) and is complete or nearly so
		quietOutOf := 6
		forcedUntil := -1 // "precise" attacks: up to this slot the correct producers all produce and deliver at once
		if attack && rapid.Bool().Draw(t, "totalSilence") {
			quietOutOf = 1000
		}
		type pending struct {
			at, node int
			b        *types.Block
		}
		var queue []pending
		recomputeDiffers, lastDiff := 0, ""
		mkBlock := s.mkBlock
		for j := 0; j < nslots; j++ {
			ts := slotTime(j)
			k := s.ownerOf(j)
			// deliveries that are due
			var rest []pending
			sort.SliceStable(queue, func(a, b int) bool { return queue[a].at < queue[b].at })
			for _, q := range queue {
				if q.at <= j {
					s.deliver(q.node, q.b, fmt.Sprintf("slot %d: delayed delivery of block %d to node %d", j, q.b.BlockNo(), q.node))
				} else {
					rest = append(rest, q)
				}
			}
			queue = rest
			act := rapid.SampledFrom([]string{"produce", "produce", "produce", "produce", "produce", "skip", "equivocate", "restart"}).Draw(t, "act")
			if j <= forcedUntil && !equivocators[k] {
				act = "produce"
			}
			if j >= attackFrom && !equivocators[k] && act != "restart" && rapid.IntRange(0, quietOutOf-1).Draw(t, "quiet") > 0 {
				act = "skip"
			}
			if attack && s.private[k] == nil && (equivocators[k] || len(equivocators) < f) && act == "produce" && rapid.Bool().Draw(t, "startFork") {
				act = "equivocate"
			}
			if equivocators[k] && s.private[k] != nil && (j >= attackFrom || rapid.IntRange(0, 2).Draw(t, "extendPrivate") == 0) {
				act = "private"
			}
			switch act {
			case "skip":
				s.hist = append(s.hist, fmt.Sprintf("s%d:skip(p%d)", j, k))
				continue
			case "restart":
				x := rapid.IntRange(0, n-1).Draw(t, "restartNode")
				nd := s.nodes[x]
				nd.Enter()
				preNo, preID := nd.DPoS.VerifLIB()
				dir := nd.Dir
				nd.Close()
				nn, err := vnode.Open(spec, dir)
				if err != nil {
					t.Fatalf("restart node %d: %v", x, err)
				}
				s.nodes[x] = nn
				nn.Enter()
				// no block has arrived yet: what the node reports (and enforces) now is what it restored at start
				gotNo, gotID := nn.DPoS.VerifLIB()
				s.restarts++
				s.hist = append(s.hist, fmt.Sprintf("s%d:restart(n%d)", j, x))
				if gotNo != preNo || (preNo > 0 && gotID != preID) {
					s.fail("slot %d: node %d reported LIB %d/%s before the restart and %d/%s after it", j, x, preNo, preID, gotNo, gotID)
				}
				rno, rid, err := nn.DPoS.VerifRecomputeLIB()
				if err != nil {
					t.Fatalf("recompute LIB: %v", err)
				}
				if rno > gotNo {
					s.fail("slot %d: node %d restored LIB %d after the restart, but replaying its stored main chain from genesis justifies LIB %d/%s", j, x, gotNo, rno, rid)
				}
				if rno != gotNo || (rno > 0 && rid != gotID) {
					recomputeDiffers++
					lastDiff = fmt.Sprintf("slot %d: node %d restored LIB %d/%s, replaying its stored main chain gives LIB %d/%s", j, x, gotNo, gotID, rno, rid)
				}
				continue
			}
			nd := s.nodes[k]
			nd.Enter()
			best := nd.Best()
			var b, extra *types.Block
			var desc string
			if act == "private" {
				// the misbehaving producer builds on its private branch instead of the best block
				b = mkBlock(k, nd, s.private[k], ts, s.privLast[k])
				s.private[k], s.privLast[k] = b, b.BlockNo()
				s.privateExt++
				if b.BlockNo() > best.BlockNo() {
					s.overtakes++
				}
				desc = fmt.Sprintf("s%d:p%d->private %d", j, k, b.BlockNo())
			} else {
				b = mkBlock(k, nd, best, ts, s.lastNo[k])
				desc = fmt.Sprintf("s%d:p%d->%d", j, k, b.BlockNo())
				if act == "equivocate" && best.BlockNo() > 0 && (equivocators[k] || len(equivocators) < f) {
					equivocators[k] = true
					pp, err := nd.CS.GetBlock(best.GetHeader().GetPrevBlockHash())
					if err == nil {
						extra = mkBlock(k, nd, pp, ts+1e6, s.lastNo[k])
						desc += fmt.Sprintf("+equiv@%d", extra.BlockNo())
						s.forks++
						s.private[k], s.privLast[k] = extra, extra.BlockNo()
						if attack && attackFrom > nslots {
							m := rapid.IntRange(0, 8).Draw(t, "silenceAfter")
							attackFrom = j + 1 + m
							if rapid.Bool().Draw(t, "precise") {
								// the main chain grows by exactly the blocks of the next m slots, then falls silent long
								// enough for the private branch to outgrow it: the irreversible block ends up just below,
								// at or just above the fork, depending on m
								forcedUntil = j + m
								quietOutOf = 1000
								if need := attackFrom + 4*(m+4); need > nslots && need <= 90 {
									nslots = need
								}
							}
						}
					}
				}
				s.lastNo[k] = b.BlockNo()
			}
			s.deliver(k, b, fmt.Sprintf("slot %d: node %d connects its own block %d", j, k, b.BlockNo()))
			for x := 0; x < n; x++ {
				if x == k {
					continue
				}
				for bi, blk := range []*types.Block{b, extra} {
					if blk == nil {
						continue
					}
					d := rapid.SampledFrom([]string{"now", "now", "now", "later", "later", "never"}).Draw(t, "delivery")
					if j <= forcedUntil {
						d = "now"
					}
					switch d {
					case "now":
						s.deliver(x, blk, fmt.Sprintf("slot %d: delivery of block %d (variant %d) to node %d", j, blk.BlockNo(), bi, x))
					case "later":
						queue = append(queue, pending{at: j + rapid.IntRange(1, 5).Draw(t, "delay"), node: x, b: blk})
						desc += fmt.Sprintf(",n%d+", x)
					default:
						desc += fmt.Sprintf(",n%d-", x)
					}
				}
			}
			s.hist = append(s.hist, desc)
		}
		// distinct tips = forks seen
		tips := map[string]bool{}
		for _, nd := range s.nodes {
			tips[string(nd.Best().BlockHash())] = true
		}
		if len(tips) > 1 {
			s.forks++
		}
		var maxLib uint64
		for _, l := range s.libNo {
			if l > maxLib {
				maxLib = l
			}
		}
		cl := []string{fmt.Sprintf("n=%d", n)}
		if recomputeDiffers > 0 {
			cl = append(cl, "restored-lib-differs-from-replay")
			rec.Note("restored-vs-replay example", lastDiff+" ; history: "+strings.Join(s.hist, " | "))
		}
		if s.forks > 0 {
			cl = append(cl, "fork")
		}
		if s.restarts > 0 {
			cl = append(cl, "restart")
		}
		if s.libAdvances >= 2 {
			cl = append(cl, "lib-advanced>=2")
		}
		if s.privateExt > 0 {
			cl = append(cl, "private-branch-extended")
		}
		if s.overtakes > 0 {
			cl = append(cl, "private-branch-longer-than-its-producer's-main-chain")
		}
		rec.Case(strings.Join(cl, ","), fmt.Sprintf("%d|%s", n, strings.Join(s.hist, "|")), s.libAdvances >= 2 && (s.forks > 0 || s.restarts > 0), func() interface{} {
			return map[string]interface{}{"producers": n, "schedule": s.hist, "max_lib": maxLib}
		})
	}
}

// TestC08StaleProposalsAfterReorg replays, as a plain scripted schedule, the history with which the generated check
// found that pre-LIB proposals of an abandoned branch survived a reorganisation (fixed in the repository, see
// known_findings.json: dpos-stale-proposals-after-reorg): four producers, p0 forks at genesis and keeps extending its
// private branch while the others are silent until it is longer than the main chain of four blocks, the nodes (LIB
// still 0) switch to it, and two correct producers then
// build on it. Every node must keep reporting a LIB that lies on its own main chain.
func TestC08StaleProposalsAfterReorg(t *testing.T) {
	rec := ev.New("C08", "stale-proposals")
	defer rec.Flush()
	s := newSim(t, 4, true, false)
	defer s.close()
	gen := s.nodes[0].Best()
	cur := -1
	next := func(k int) int64 {
		for cur++; s.ownerOf(cur) != k; cur++ {
		}
		return slotTime(cur)
	}
	all := func(b *types.Block, what string) {
		for x := range s.nodes {
			s.deliver(x, b, fmt.Sprintf("%s to node %d", what, x))
		}
		s.hist = append(s.hist, what)
	}
	a1 := s.mkBlock(1, s.nodes[1], gen, next(1), 0)
	all(a1, "p1->1")
	ts := next(0)
	a2 := s.mkBlock(0, s.nodes[0], a1, ts, 0)
	x1 := s.mkBlock(0, s.nodes[0], gen, ts+1e6, 0)
	all(a2, "p0->2")
	all(x1, "p0->1' (equivocation on genesis)")
	a3 := s.mkBlock(2, s.nodes[2], a2, next(2), 0)
	all(a3, "p2->3")
	a4 := s.mkBlock(3, s.nodes[3], a3, next(3), 0)
	all(a4, "p3->4")
	x2 := s.mkBlock(0, s.nodes[0], x1, next(0), 1)
	all(x2, "p0->2'")
	x3 := s.mkBlock(0, s.nodes[0], x2, next(0), 2)
	all(x3, "p0->3'")
	x4 := s.mkBlock(0, s.nodes[0], x3, next(0), 3)
	all(x4, "p0->4'")
	x5 := s.mkBlock(0, s.nodes[0], x4, next(0), 4)
	all(x5, "p0->5'")
	switched := 0
	for _, nd := range s.nodes {
		if bytes.Equal(nd.Best().BlockHash(), x5.BlockHash()) {
			switched++
		}
	}
	b6 := s.mkBlock(2, s.nodes[2], x5, next(2), 3)
	all(b6, "p2->6 on the private branch")
	b7 := s.mkBlock(1, s.nodes[1], b6, next(1), 1)
	all(b7, "p1->7")
	b8 := s.mkBlock(3, s.nodes[3], b7, next(3), 4)
	all(b8, "p3->8")
	b9 := s.mkBlock(2, s.nodes[2], b8, next(2), 6)
	all(b9, "p2->9")
	rec.Case("scripted", "stale-proposals", switched > 0, func() interface{} {
		return map[string]interface{}{"schedule": s.hist, "nodes that switched to the private branch": switched, "final LIBs": fmt.Sprint(s.libNo)}
	})
}

// TestC08FailedReorg: a longer branch whose LAST block is invalid. The reorganisation executes the valid blocks of
// the branch (each one updates the finality status), fails at the last one and the node stays on its chain. Generated:
// number of producers, length of the main chain (all by one producer, so that nothing is irreversible on it), fork
// point, length of the branch (by the other producers in turn, long enough for a block of the branch to become
// irreversible within the branch). Afterwards every node must report a LIB that lies on its own main chain (observe),
// and when the branch is completed by a valid block instead and extended, it must be adopted (fork choice).
func TestC08FailedReorg(t *testing.T) {
	rec := ev.New("C08", "failed-reorg")
	defer rec.Flush()
	rapid.Check(t, func(t *rapid.T) {
		n := rapid.IntRange(3, 5).Draw(t, "producers")
		// (the fork-choice clause for the valid PREFIX of the invalid branch is C07's recorded finding; here only
		// finality is judged while the invalid branch is around, and adoption of the completed branch at the end)
		s := newSim(t, n, true, false)
		defer s.close()
		gen := s.nodes[0].Best()
		cur := -1
		next := func(k int) int64 {
			for cur++; s.ownerOf(cur) != k; cur++ {
			}
			return slotTime(cur)
		}
		all := func(b *types.Block, what string) {
			s.hist = append(s.hist, what)
			for x := range s.nodes {
				s.deliver(x, b, fmt.Sprintf("%s to node %d", what, x))
			}
		}
		m := rapid.IntRange(2, 5).Draw(t, "mainLen")
		loner := n - 1
		mainChain := []*types.Block{gen}
		for i := 1; i <= m; i++ {
			b := s.mkBlock(loner, s.nodes[loner], mainChain[i-1], next(loner), uint64(i-1))
			mainChain = append(mainChain, b)
			all(b, fmt.Sprintf("p%d->%d", loner, i))
		}
		fork := rapid.IntRange(0, m-1).Draw(t, "forkAt")
		extra := rapid.IntRange(1, 2*n).Draw(t, "branchExtra")
		blen := m - fork + extra
		last := map[int]uint64{}
		prev := mainChain[fork]
		var branch []*types.Block
		for i := 0; i < blen; i++ {
			k := i % (n - 1) // the other producers in turn
			b := s.mkBlock(k, s.nodes[k], prev, next(k), last[k])
			last[k] = b.BlockNo()
			branch = append(branch, b)
			prev = b
		}
		// the last block of the branch is invalid (wrong state root, properly signed)
		good := branch[blen-1]
		bad := vnode.WithStateRootFlipped(good)
		kbad := (blen - 1) % (n - 1)
		if err := bad.Sign(vnode.BPN(kbad).Priv); err != nil {
			t.Fatal(err)
		}
		bad.Hash = nil
		bad.Hash = bad.BlockHash()
		hb := string(bad.BlockHash())
		s.parent[hb], s.height[hb], s.signer[hb] = string(bad.GetHeader().GetPrevBlockHash()), bad.BlockNo(), kbad
		// the branch arrives in one piece: children first (they wait as orphans), its first block last, so that the
		// reorganisation is attempted with the whole branch, invalid tip included
		if blen >= 2 {
			all(bad, fmt.Sprintf("p%d->%d' INVALID (wrong state root), parent not yet known", kbad, bad.BlockNo()))
			for i := blen - 2; i >= 0; i-- {
				all(branch[i], fmt.Sprintf("p%d->%d' (branch from %d)", i%(n-1), branch[i].BlockNo(), fork))
			}
		} else {
			all(bad, fmt.Sprintf("p%d->%d' INVALID (wrong state root)", kbad, bad.BlockNo()))
		}
		for x, nd := range s.nodes {
			if !bytes.Equal(nd.Best().BlockHash(), mainChain[m].BlockHash()) && nd.Best().BlockNo() >= bad.BlockNo() {
				t.Fatalf("harness: node %d adopted the invalid block", x)
			}
		}
		// the honest block instead of the invalid one, and one more on top of it
		all(good, fmt.Sprintf("p%d->%d' (valid block in place of the invalid one)", kbad, good.BlockNo()))
		k := blen % (n - 1)
		top := s.mkBlock(k, s.nodes[k], good, next(k), last[k])
		all(top, fmt.Sprintf("p%d->%d'", k, top.BlockNo()))
		adopted := 0
		for x, nd := range s.nodes {
			if bytes.Equal(nd.Best().BlockHash(), top.BlockHash()) {
				adopted++
			} else {
				// nothing on the loner's chain ever was irreversible, so the completed, valid, longer branch cannot be vetoed
				no, id := nd.DPoS.VerifLIB()
				s.fail("node %d did not adopt the completed valid branch up to %d (its best block is %d, it reports LIB %d/%s)", x, top.BlockNo(), nd.Best().BlockNo(), no, id)
			}
		}
		rec.Case(fmt.Sprintf("n=%d", n), fmt.Sprintf("%d|%s", n, strings.Join(s.hist, "|")), s.libAdvances > 0, func() interface{} {
			return map[string]interface{}{"schedule": s.hist, "nodes on the completed branch": adopted, "final LIBs": fmt.Sprint(s.libNo)}
		})
	})
}
