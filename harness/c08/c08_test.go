//go:build verif

package c08

// C08 — DPoS finality. Several real nodes (chain service + real DPoS status and producer set)
// live in one process and are driven sequentially by a generated schedule: per slot the slot
// owner produces on ITS node's current best block (or skips, or — within the fault budget —
// equivocates on another parent), every block is delivered to every other node now, later
// (reordered) or never, and nodes restart at drawn points. Blocks are empty (so the process
// globals of the execution layer are never written), signed with the owner's key, and carry
// Confirms = no - (number of the owner's previous block), the rule of the block factory.
//
// Oracle (per node after every delivery, and across nodes): the reported LIB never decreases,
// lies on the node's main chain, is supported by blocks of more than 2n/3 distinct producers on
// the chain above it, nothing at or below it is ever replaced, blocks numbered at or below it
// are refused, the LIBs of any two nodes lie on one chain, and after a restart the restored LIB
// equals the one recomputed from the stored blocks.

import (
	"bytes"
	"fmt"
	"sort"
	"strings"
	"testing"

	"github.com/aergoio/aergo/v2/consensus/impl/dpos/slot"
	"github.com/aergoio/aergo/v2/types"
	"github.com/aergoio/aergo/v2/verifx/ev"
	"github.com/aergoio/aergo/v2/verifx/vnode"
	"pgregory.net/rapid"
)

type sim struct {
	t      *rapid.T
	spec   *vnode.Spec
	n      int
	nodes  []*vnode.Node
	bpOf   map[int]int            // producer index (slot owner) -> key index
	parent map[string]string      // block hash -> parent hash (all blocks ever produced)
	height map[string]uint64      // block hash -> number
	signer map[string]int         // block hash -> key index of the producer
	blocks map[string]*types.Block
	lastNo []uint64 // per producer: number of its previous block
	libNo  []uint64 // per node: highest LIB reported so far
	libID  []string
	frozen []map[uint64]string // per node: main-chain hash per height at or below the LIB, once seen
	hist   []string
	libAdvances, forks, restarts int
}

func (s *sim) fail(format string, a ...interface{}) {
	s.t.Fatalf("%s\nhistory: %s", fmt.Sprintf(format, a...), strings.Join(s.hist, " | "))
}

func (s *sim) isAncestor(anc, desc string) bool {
	for cur := desc; cur != ""; cur = s.parent[cur] {
		if cur == anc {
			return true
		}
		if s.height[cur] <= s.height[anc] {
			return false
		}
	}
	return false
}

// observe checks the finality invariants on node x.
func (s *sim) observe(x int, where string) {
	nd := s.nodes[x]
	no, id := nd.DPoS.VerifLIB()
	if no < s.libNo[x] {
		s.fail("%s: node %d reports LIB %d after having reported LIB %d", where, x, no, s.libNo[x])
	}
	best := nd.Best()
	if no > 0 {
		lb, err := nd.CS.CDB().GetBlockByNo(no)
		if err != nil || lb.ID() != id {
			s.fail("%s: node %d reports LIB %d/%s, but its main chain has another block at that height (err %v)", where, x, no, id, err)
		}
		// support: blocks of more than 2n/3 distinct producers from the LIB up to the tip
		prod := map[int]bool{}
		cur := best
		for cur.BlockNo() >= no && cur.BlockNo() > 0 {
			prod[s.signer[string(cur.BlockHash())]] = true
			p, err := nd.CS.GetBlock(cur.GetHeader().GetPrevBlockHash())
			if err != nil {
				s.fail("%s: node %d: main chain broken below %d", where, x, cur.BlockNo())
			}
			cur = p
		}
		if need := s.n*2/3 + 1; len(prod) < need {
			s.fail("%s: node %d reports LIB %d although only %d distinct producers (of %d, %d needed) have blocks from it up to the tip %d", where, x, no, len(prod), s.n, need, best.BlockNo())
		}
	}
	if no > s.libNo[x] {
		s.libAdvances++
	}
	s.libNo[x], s.libID[x] = no, id
	// nothing at or below the LIB is ever replaced
	for h := uint64(1); h <= no; h++ {
		hash, err := nd.CS.GetHashByNo(h)
		if err != nil {
			s.fail("%s: node %d: no main chain block at height %d <= LIB %d", where, x, h, no)
		}
		if old, ok := s.frozen[x][h]; ok && old != string(hash) {
			s.fail("%s: node %d: the main chain block at height %d (at or below a reported LIB) was replaced", where, x, h)
		}
		s.frozen[x][h] = string(hash)
	}
	// LIBs of all nodes lie on one chain
	for y := range s.nodes {
		if y == x || s.libNo[y] == 0 || no == 0 {
			continue
		}
		a, b := s.frozen[x][no], s.frozen[y][s.libNo[y]]
		if !(s.isAncestor(a, b) || s.isAncestor(b, a)) {
			s.fail("%s: node %d holds irreversible block %d/%x and node %d holds irreversible block %d/%x on a conflicting branch", where, x, no, []byte(a)[:4], y, s.libNo[y], []byte(b)[:4])
		}
	}
}

func (s *sim) deliver(x int, b *types.Block, where string) {
	nd := s.nodes[x]
	nd.Enter()
	preLib := s.libNo[x]
	err := nd.AddPeer(b)
	if b.BlockNo() <= preLib && err == nil {
		// refused blocks at or below the LIB: accepted only if it is the block already there
		if h, e := nd.CS.GetHashByNo(b.BlockNo()); e != nil || !bytes.Equal(h, b.BlockHash()) {
			s.fail("%s: node %d accepted block %d although its LIB is %d", where, x, b.BlockNo(), preLib)
		}
	}
	s.observe(x, where)
}

func TestC08Finality(t *testing.T) {
	rec := ev.New("C08", "finality")
	defer rec.Flush()
	rapid.Check(t, func(t *rapid.T) {
		n := rapid.IntRange(1, 4).Draw(t, "producers")
		opts := vnode.WorldOpts{Consensus: "dpos", Public: false, NUsers: 1, NBPs: n, Magic: "verif.c08"}
		spec := vnode.NewSpec(opts)
		spec.RealDPoS = true
		s := &sim{t: t, spec: spec, n: n, bpOf: map[int]int{}, parent: map[string]string{}, height: map[string]uint64{}, signer: map[string]int{}, blocks: map[string]*types.Block{}}
		defer func() {
			for _, nd := range s.nodes {
				nd.Remove()
			}
		}()
		for i := 0; i < n; i++ {
			nd, err := vnode.Open(spec, "")
			if err != nil {
				t.Fatalf("open node %d: %v", i, err)
			}
			s.nodes = append(s.nodes, nd)
			s.frozen = append(s.frozen, map[uint64]string{})
		}
		s.libNo, s.libID, s.lastNo = make([]uint64, n), make([]string, n), make([]uint64, n)
		s.nodes[0].Enter()
		s.nodes[0].SwitchTo()
		for k := 0; k < n; k++ {
			idx := s.nodes[0].DPoS.VerifBpIndex(vnode.BPN(k).ID)
			if idx < 0 {
				t.Fatalf("harness: producer %d not in the genesis producer set", k)
			}
			s.bpOf[idx] = k
		}
		gen := s.nodes[0].Best()
		s.height[string(gen.BlockHash())] = 0
		f := (n - 1) / 3
		equivocators := map[int]bool{}
		// slots lie in the past so that no block is "future"
		base := int64(1600000000) * 1e9 // a fixed instant in the past: the schedule must not depend on the wall clock
		nslots := rapid.IntRange(4, 36).Draw(t, "slots")
		type pending struct {
			at, node int
			b        *types.Block
		}
		var queue []pending
		recomputeDiffers, lastDiff := 0, ""
		mkBlock := func(k int, nd *vnode.Node, prev *types.Block, ts int64) *types.Block {
			nd.Enter()
			p, err := nd.Produce(prev, ts, nil, nil)
			if err != nil {
				t.Fatalf("produce: %v", err)
			}
			b := p.Block
			b.SetConfirms(b.BlockNo() - s.lastNo[k])
			if err := b.Sign(vnode.BPN(k).Priv); err != nil {
				t.Fatalf("sign: %v", err)
			}
			b.Hash = nil
			b.Hash = b.BlockHash()
			h := string(b.BlockHash())
			s.parent[h], s.height[h], s.signer[h], s.blocks[h] = string(prev.BlockHash()), b.BlockNo(), k, b
			return b
		}
		for j := 0; j < nslots; j++ {
			ts := base + int64(j)*1e9 + 300e6
			owner := int(slot.NewFromUnixNano(ts).NextBpIndex(uint16(n)))
			k := s.bpOf[owner]
			// deliveries that are due
			var rest []pending
			sort.SliceStable(queue, func(a, b int) bool { return queue[a].at < queue[b].at })
			for _, q := range queue {
				if q.at <= j {
					s.deliver(q.node, q.b, fmt.Sprintf("slot %d: delayed delivery of block %d to node %d", j, q.b.BlockNo(), q.node))
				} else {
					rest = append(rest, q)
				}
			}
			queue = rest
			act := rapid.SampledFrom([]string{"produce", "produce", "produce", "produce", "produce", "skip", "equivocate", "restart"}).Draw(t, "act")
			switch act {
			case "skip":
				s.hist = append(s.hist, fmt.Sprintf("s%d:skip(p%d)", j, k))
				continue
			case "restart":
				x := rapid.IntRange(0, n-1).Draw(t, "restartNode")
				nd := s.nodes[x]
				nd.Enter()
				preNo, preID := nd.DPoS.VerifLIB()
				dir := nd.Dir
				nd.Close()
				nn, err := vnode.Open(spec, dir)
				if err != nil {
					t.Fatalf("restart node %d: %v", x, err)
				}
				s.nodes[x] = nn
				nn.Enter()
				nn.DPoS.VerifForceLoad()
				gotNo, gotID := nn.DPoS.VerifLIB()
				s.restarts++
				s.hist = append(s.hist, fmt.Sprintf("s%d:restart(n%d)", j, x))
				if gotNo != preNo || (preNo > 0 && gotID != preID) {
					s.fail("slot %d: node %d reported LIB %d/%s before the restart and %d/%s after it", j, x, preNo, preID, gotNo, gotID)
				}
				rno, rid, err := nn.DPoS.VerifRecomputeLIB()
				if err != nil {
					t.Fatalf("recompute LIB: %v", err)
				}
				if rno > gotNo {
					s.fail("slot %d: node %d restored LIB %d after the restart, but replaying its stored main chain from genesis justifies LIB %d/%s", j, x, gotNo, rno, rid)
				}
				if rno != gotNo || (rno > 0 && rid != gotID) {
					recomputeDiffers++
					lastDiff = fmt.Sprintf("slot %d: node %d restored LIB %d/%s, replaying its stored main chain gives LIB %d/%s", j, x, gotNo, gotID, rno, rid)
				}
				continue
			}
			nd := s.nodes[k]
			nd.Enter()
			best := nd.Best()
			b := mkBlock(k, nd, best, ts)
			desc := fmt.Sprintf("s%d:p%d->%d", j, k, b.BlockNo())
			var extra *types.Block
			if act == "equivocate" && best.BlockNo() > 0 && (equivocators[k] || len(equivocators) < f) {
				equivocators[k] = true
				pp, err := nd.CS.GetBlock(best.GetHeader().GetPrevBlockHash())
				if err == nil {
					extra = mkBlock(k, nd, pp, ts+1e6)
					desc += fmt.Sprintf("+equiv@%d", extra.BlockNo())
					s.forks++
				}
			}
			s.lastNo[k] = b.BlockNo()
			s.deliver(k, b, fmt.Sprintf("slot %d: node %d connects its own block %d", j, k, b.BlockNo()))
			for x := 0; x < n; x++ {
				if x == k {
					continue
				}
				for bi, blk := range []*types.Block{b, extra} {
					if blk == nil {
						continue
					}
					switch d := rapid.SampledFrom([]string{"now", "now", "now", "later", "later", "never"}).Draw(t, "delivery"); d {
					case "now":
						s.deliver(x, blk, fmt.Sprintf("slot %d: delivery of block %d (variant %d) to node %d", j, blk.BlockNo(), bi, x))
					case "later":
						queue = append(queue, pending{at: j + rapid.IntRange(1, 5).Draw(t, "delay"), node: x, b: blk})
						desc += fmt.Sprintf(",n%d+", x)
					default:
						desc += fmt.Sprintf(",n%d-", x)
					}
				}
			}
			s.hist = append(s.hist, desc)
		}
		// distinct tips = forks seen
		tips := map[string]bool{}
		for _, nd := range s.nodes {
			tips[string(nd.Best().BlockHash())] = true
		}
		if len(tips) > 1 {
			s.forks++
		}
		var maxLib uint64
		for _, l := range s.libNo {
			if l > maxLib {
				maxLib = l
			}
		}
		cl := []string{fmt.Sprintf("n=%d", n)}
		if recomputeDiffers > 0 {
			cl = append(cl, "restored-lib-differs-from-replay")
			rec.Note("restored-vs-replay example", lastDiff+" ; history: "+strings.Join(s.hist, " | "))
		}
		if s.forks > 0 {
			cl = append(cl, "fork")
		}
		if s.restarts > 0 {
			cl = append(cl, "restart")
		}
		if s.libAdvances >= 2 {
			cl = append(cl, "lib-advanced>=2")
		}
		rec.Case(strings.Join(cl, ","), fmt.Sprintf("%d|%s", n, strings.Join(s.hist, "|")), s.libAdvances >= 2 && (s.forks > 0 || s.restarts > 0), func() interface{} {
			return map[string]interface{}{"producers": n, "schedule": s.hist, "max_lib": maxLib}
		})
	})
}
