//go:build verif

package c08

// C09 part B — crafted blocks against the REAL DPoS acceptance checks (VerifySign, IsBlockValid,
// VerifyTimestamp) of a node with the real DPoS consensus attached, and through the full
// addBlock path. A block is legitimate iff its signature verifies over the complete header
// with the key in the header, that key is the member of the CURRENT producer list whose index
// owns the slot of the timestamp, and the timestamp is less than two slots ahead of the clock.

import (
	"bytes"
	"fmt"
	"strings"
	"testing"
	"time"

	"github.com/aergoio/aergo/v2/consensus/impl/dpos/slot"
	"github.com/aergoio/aergo/v2/types"
	"github.com/aergoio/aergo/v2/verifx/ev"
	"github.com/aergoio/aergo/v2/verifx/vnode"
	"pgregory.net/rapid"
)

func TestC09Blocks(t *testing.T) {
	rec := ev.New("C09", "blocks")
	defer rec.Flush()
	rapid.Check(t, func(t *rapid.T) {
		n := rapid.IntRange(1, 5).Draw(t, "producers")
		opts := vnode.WorldOpts{Consensus: "dpos", Public: false, NUsers: 1, NBPs: n, Magic: "verif.c09"}
		spec := vnode.NewSpec(opts)
		spec.RealDPoS = true
		nd, err := vnode.Open(spec, "")
		if err != nil {
			t.Fatal(err)
		}
		defer nd.Remove()
		nd.Enter()
		nd.SwitchTo()
		d := nd.DPoS
		// the current producer list: genesis order, or a re-elected order (same members, permuted; or a subset + newcomer)
		order := make([]int, n)
		for k := 0; k < n; k++ {
			order[d.VerifBpIndex(vnode.BPN(k).ID)] = k
		}
		regime := rapid.SampledFrom([]string{"genesis", "genesis", "permuted", "permuted-twice", "replaced"}).Draw(t, "regime")
		apply := func(o []int) {
			var ids []string
			for _, k := range o {
				ids = append(ids, vnode.BPN(k).Enc())
			}
			if err := d.VerifUpdateBPs(ids); err != nil {
				t.Fatalf("update producers: %v", err)
			}
		}
		switch regime {
		case "permuted", "permuted-twice":
			order = rapid.Permutation(order).Draw(t, "perm")
			apply(order)
			if regime == "permuted-twice" {
				order = rapid.Permutation(order).Draw(t, "perm2")
				apply(order)
			}
		case "replaced":
			order = rapid.Permutation(order).Draw(t, "perm")
			order[rapid.IntRange(0, n-1).Draw(t, "replacedPos")] = 7 // a newcomer takes one seat
			apply(order)
		}
		member := map[int]int{} // key index -> producer index in the current list
		for i, k := range order {
			member[k] = i
		}
		gen := nd.Best()
		// timestamp classes
		var ts int64
		tsKind := rapid.SampledFrom([]string{"past", "past", "past", "pre-epoch", "near-epoch", "recent"}).Draw(t, "tsKind")
		switch tsKind {
		case "past":
			ts = int64(1500000000+rapid.IntRange(0, 100000).Draw(t, "sec"))*1e9 + int64(rapid.IntRange(0, 999).Draw(t, "ms"))*1e6
		case "pre-epoch":
			ts = -int64(rapid.IntRange(1, 100000).Draw(t, "negMs")) * 1e6
		case "near-epoch":
			ts = int64(rapid.IntRange(-3000, 3000).Draw(t, "epochMs")) * 1e6
		default:
			ts = time.Now().Add(-time.Duration(rapid.IntRange(20, 120).Draw(t, "ago")) * time.Second).UnixNano()
		}
		owner := slot.NewFromUnixNano(ts).NextBpIndex(uint16(n)) // may be negative for pre-epoch instants
		mk := func(k int, ts int64) *types.Block { return mkOn(t, nd, gen, k, ts) }
		_ = func(k int, ts int64) *types.Block {
			p, err := nd.Produce(gen, ts, nil, nil)
			if err != nil {
				t.Fatalf("produce: %v", err)
			}
			b := p.Block
			b.SetConfirms(1)
			if err := b.Sign(vnode.BPN(k).Priv); err != nil {
				t.Fatalf("sign: %v", err)
			}
			b.Hash = nil
			b.Hash = b.BlockHash()
			return b
		}
		accepts := func(b *types.Block) (bool, string) {
			if err := d.VerifySign(b); err != nil {
				return false, "signature"
			}
			if err := d.IsBlockValid(b, gen); err != nil {
				return false, "producer/slot"
			}
			if !d.VerifyTimestamp(b) {
				return false, "timestamp"
			}
			return true, ""
		}
		signerKind := rapid.SampledFrom([]string{"owner", "owner", "other-member", "outsider", "former-member"}).Draw(t, "signer")
		var k int
		legit := false
		switch signerKind {
		case "owner":
			if owner >= 0 && int(owner) < len(order) {
				k, legit = order[owner], true
			} else {
				k = order[0]
			}
		case "other-member":
			k = order[rapid.IntRange(0, n-1).Draw(t, "memberPos")]
			legit = owner >= 0 && member[k] == int(owner)
		case "outsider":
			k = 9
		default:
			// a key that was in the genesis list but is not in the current one (only in the "replaced" regime)
			k = 9
			for g := 0; g < n; g++ {
				if _, in := member[g]; !in {
					k = g
				}
			}
		}
		b := mk(k, ts)
		desc := fmt.Sprintf("n=%d regime=%s order=%v ts=%s(%d ms) slot owner index=%d signer=key%d(%s)", n, regime, order, tsKind, ts/1e6, owner, k, signerKind)
		got, why := accepts(b)
		if got != legit {
			t.Fatalf("a block signed by key %d was accepted=%v (%s) by the DPoS checks, legitimate=%v\n%s", k, got, why, legit, desc)
		}
		classes := []string{"regime:" + regime, "ts:" + tsKind, "signer:" + signerKind, fmt.Sprintf("legit=%v", legit)}
		nontrivial := regime != "genesis" || tsKind != "past" || signerKind != "owner"
		// header mutations without re-signing: the signature must cover every field
		if legit {
			fields := []string{"ChainID", "PrevBlockHash", "BlockNo", "Timestamp", "BlocksRootHash", "TxsRootHash", "ReceiptsRootHash", "Confirms", "PubKey", "CoinbaseAccount", "Sign", "Consensus"}
			f := rapid.SampledFrom(fields).Draw(t, "field")
			m := vnode.CloneBlock(b)
			h := m.Header
			flip := func(x []byte) []byte {
				c := append([]byte{}, x...)
				if len(c) == 0 {
					return []byte{1}
				}
				c[rapid.IntRange(0, len(c)-1).Draw(t, "pos")] ^= byte(1 << uint(rapid.IntRange(0, 7).Draw(t, "bit")))
				return c
			}
			switch f {
			case "ChainID":
				h.ChainID = flip(h.ChainID)
			case "PrevBlockHash":
				h.PrevBlockHash = flip(h.PrevBlockHash)
			case "BlockNo":
				h.BlockNo += uint64(rapid.IntRange(1, 3).Draw(t, "d"))
			case "Timestamp":
				h.Timestamp += int64(rapid.IntRange(1, 200).Draw(t, "dms")) * 1e6 // mostly the same slot
			case "BlocksRootHash":
				h.BlocksRootHash = flip(h.BlocksRootHash)
			case "TxsRootHash":
				h.TxsRootHash = flip(h.TxsRootHash)
			case "ReceiptsRootHash":
				h.ReceiptsRootHash = flip(h.ReceiptsRootHash)
			case "Confirms":
				h.Confirms++
			case "PubKey":
				o := mk(order[(int(owner)+1)%n], ts)
				if n == 1 {
					o = mk(9, ts)
				}
				h.PubKey = o.Header.PubKey
			case "CoinbaseAccount":
				h.CoinbaseAccount = flip(h.CoinbaseAccount)
			case "Sign":
				if rapid.Bool().Draw(t, "truncate") {
					h.Sign = h.Sign[:len(h.Sign)-1]
				} else {
					h.Sign = flip(h.Sign)
				}
			case "Consensus":
				h.Consensus = flip(h.Consensus)
			}
			m.Hash = nil
			m.Hash = m.BlockHash()
			if ok, _ := accepts(m); ok {
				t.Fatalf("a signed block whose header field %s was altered afterwards is still accepted\n%s", f, desc)
			}
			classes = append(classes, "mutated:"+f)
			nontrivial = true
		}
		// future slots: signed by the owner of that slot, k slots ahead of the clock. The verdict depends on the wall
		// clock at the moment of the call, and the code's slot index of an instant flips 1 ms after the full second
		// ((ms-1)/interval): an evaluation is judged only if the clock read before and after the call lies in the same
		// second and between 5 ms and 990 ms into it, where every reading of "slot of now" agrees. A disagreement has
		// to repeat on three such evaluations (a stepped clock was seen on freshly restored sandboxes).
		if regime == "genesis" {
			ahead := rapid.IntRange(0, 4).Draw(t, "ahead")
			disagreements, evaluated := 0, 0
			var last string
			inside := func(x time.Time) bool { f := x.UnixNano() % 1e9; return f >= 5e6 && f <= 990e6 }
			for attempt := 0; attempt < 12 && evaluated < 3; attempt++ {
				now := time.Now()
				if !inside(now) {
					time.Sleep(7 * time.Millisecond)
					continue
				}
				fts := (now.UnixNano()/1e9+int64(ahead))*1e9 + 500e6
				fo := slot.NewFromUnixNano(fts).NextBpIndex(uint16(n))
				fb := mk(order[fo], fts)
				curIdx := now.UnixNano() / 1e9
				want := fts/1e9 < curIdx+2
				got := d.VerifyTimestamp(fb)
				// re-read the clock: not judged if a second boundary was crossed (or nearly) meanwhile
				if after := time.Now(); after.UnixNano()/1e9 != curIdx || !inside(after) {
					continue
				}
				evaluated++
				if got == want {
					break
				}
				disagreements++
				last = fmt.Sprintf("a block %d slots ahead of the local clock: timestamp accepted=%v, expected %v", ahead, got, want)
				time.Sleep(3 * time.Millisecond)
			}
			if disagreements >= 3 {
				t.Fatalf("%s (three evaluations in a row)", last)
			}
			if evaluated > 0 {
				classes = append(classes, fmt.Sprintf("ahead=%d", ahead))
			} else {
				classes = append(classes, "future-skipped-boundary")
			}
			if disagreements > 0 {
				rec.Label("future-slot-verdict-disagreed-once(clock)")
			}
		}
		// child before parent: a block that waits as an orphan gets the same checks when its parent arrives
		if legit && (tsKind == "past" || tsKind == "recent") && rapid.Bool().Draw(t, "childFirst") {
			ts2 := ts + 1e9
			owner2 := int(slot.NewFromUnixNano(ts2).NextBpIndex(uint16(n)))
			ckind := rapid.SampledFrom([]string{"legit", "wrong-key", "altered-after-signing"}).Draw(t, "childKind")
			signer := order[owner2]
			if ckind == "wrong-key" {
				signer = 9
				if n > 1 && rapid.Bool().Draw(t, "otherMember") {
					signer = order[(owner2+1)%n]
				}
			}
			c := mkOn(t, nd, b, signer, ts2)
			if ckind == "altered-after-signing" {
				c.Header.CoinbaseAccount = append([]byte{1}, c.Header.CoinbaseAccount...)
				c.Hash = nil
				c.Hash = c.BlockHash()
			}
			errC := nd.AddPeer(c)
			errB := nd.AddPeer(b)
			best := nd.Best()
			cOnChain := false
			if h, err := nd.CS.GetHashByNo(c.BlockNo()); err == nil && bytes.Equal(h, c.BlockHash()) {
				cOnChain = true
			}
			if (ckind == "legit") != cOnChain {
				t.Fatalf("a child block (%s) delivered before its parent is on the main chain=%v after the parent arrived (delivery results: child %v, parent %v; best block %d)\n%s", ckind, cOnChain, errC, errB, best.BlockNo(), desc)
			}
			// (the delivery of the parent reports the error of the waiting child when that one is refused)
			if h, err := nd.CS.GetHashByNo(b.BlockNo()); err != nil || !bytes.Equal(h, b.BlockHash()) {
				t.Fatalf("the legitimate parent is not on the main chain after its child (%s) had arrived first (delivery results: child %v, parent %v)\n%s", ckind, errC, errB, desc)
			}
			if ckind == "legit" && errB != nil {
				t.Fatalf("parent and child are both legitimate, the parent's delivery reports %v\n%s", errB, desc)
			}
			classes = append(classes, "child-first:"+ckind)
			rec.Case(strings.Join(classes, ","), desc+"|child-first:"+ckind, true, func() interface{} { return desc + " child first: " + ckind })
			return
		}
		// the full path agrees (a legitimate block on genesis is connected)
		if err := nd.AddPeer(b); (err == nil) != legit {
			t.Fatalf("addBlock accepted=%v (%v) a block whose legitimacy is %v\n%s", err == nil, err, legit, desc)
		}
		rec.Case(strings.Join(classes, ","), desc, nontrivial, func() interface{} { return desc })
	})
}

// mkOn makes key k's signed empty block on prev at instant ts.
func mkOn(t *rapid.T, nd *vnode.Node, prev *types.Block, k int, ts int64) *types.Block {
	p, err := nd.Produce(prev, ts, nil, nil)
	if err != nil {
		t.Fatalf("produce: %v", err)
	}
	b := p.Block
	b.SetConfirms(1)
	if err := b.Sign(vnode.BPN(k).Priv); err != nil {
		t.Fatalf("sign: %v", err)
	}
	b.Hash = nil
	b.Hash = b.BlockHash()
	return b
}
