//go:build verif

package c14

// C14 — admission totality. Hostile transactions from a grammar over every body field and over
// the JSON governance payloads are (1) pushed through the real admission path of the pool
// (format + signature verification, then stateful validation and insertion) and (2), when
// admitted, executed through the real executor in producer and validator mode. Oracle: no
// panic anywhere; admission ends in accept or an error; execution ends in success, an ERROR
// receipt or a rejection.

import (
	"encoding/json"
	"fmt"
	"github.com/aergoio/aergo/v2/contract/system"
	"github.com/aergoio/aergo/v2/pkg/component"
	"github.com/aergoio/aergo/v2/state/statedb"
	"github.com/aergoio/aergo/v2/types/message"
	"math/big"
	"regexp"
	"runtime"
	"sort"
	"strings"
	"testing"

	"github.com/aergoio/aergo/v2/contract"
	"github.com/aergoio/aergo/v2/internal/enc/base58"
	"github.com/aergoio/aergo/v2/mempool"
	"github.com/aergoio/aergo/v2/types"
	"github.com/aergoio/aergo/v2/verifx/ev"
	"github.com/aergoio/aergo/v2/verifx/vnode"
	"pgregory.net/rapid"
)

var frameRe = regexp.MustCompile(`github\.com/aergoio/aergo/v2/([A-Za-z0-9_/\.\(\)\*]+)\(`)

// panicSite extracts the innermost aergo frame of a recovered panic's stack.
func panicSite(stack string) string {
	for _, m := range frameRe.FindAllStringSubmatch(stack, -1) {
		f := m[1]
		if strings.HasPrefix(f, "verifx/") || strings.Contains(f, "Verif") {
			continue
		}
		return f
	}
	return "unknown"
}

func guard(f func()) (p interface{}, stack string) {
	defer func() {
		if r := recover(); r != nil {
			b := make([]byte, 1<<14)
			n := runtime.Stack(b, false)
			p, stack = r, string(b[:n])
		}
	}()
	f()
	return nil, ""
}

// hasOddLengthCandidate recognises the input class of the known finding
// "votebp-candidate-not-39-bytes": a call to aergo.system that is executed as a producer vote
// (v1voteBP, or any unknown call name, which the op table maps to the same command) with an
// argument that is valid base58 but does not decode to 39 bytes.
func hasOddLengthCandidate(tx *types.Tx) bool {
	if string(tx.GetBody().GetRecipient()) != types.AergoSystem {
		return false
	}
	var ci types.CallInfo
	if json.Unmarshal(tx.GetBody().GetPayload(), &ci) != nil {
		return false
	}
	for _, a := range ci.Args {
		s, ok := a.(string)
		if !ok {
			return false
		}
		b, err := base58.Decode(s)
		if err != nil {
			return false
		}
		if len(b) != 39 {
			return true
		}
	}
	return false
}

func otherLenPeerID(n int) string {
	b := make([]byte, n)
	b[0], b[1] = 0x12, byte(n-2) // sha2-256 style multihash header with another length
	for i := 2; i < n; i++ {
		b[i] = byte(i)
	}
	return base58.Encode(b)
}

func drawArg(t *rapid.T, w *vnode.World) interface{} {
	switch rapid.IntRange(0, 17).Draw(t, "argKind") {
	case 0:
		return vnode.KeyN(rapid.IntRange(0, w.NUsers-1).Draw(t, "addr")).Enc()
	case 1:
		return vnode.BPN(rapid.IntRange(0, 4).Draw(t, "bp")).Enc()
	case 2:
		return otherLenPeerID(rapid.SampledFrom([]int{34, 38, 40, 2, 70}).Draw(t, "pidLen"))
	case 3:
		return float64(rapid.IntRange(-3, 1000).Draw(t, "num"))
	case 4:
		return nil
	case 5:
		return rapid.Bool().Draw(t, "bool")
	case 6:
		return []interface{}{"x", 1.0}
	case 7:
		return map[string]interface{}{"a": "b"}
	case 8:
		return ""
	case 9:
		return strings.Repeat("z", rapid.SampledFrom([]int{11, 12, 13, 64, 5000}).Draw(t, "slen"))
	case 10:
		return rapid.SampledFrom([]string{"BPCOUNT", "STAKINGMIN", "GASPRICE", "NAMEPRICE", "bpcount", "NOSUCH", "voteBP"}).Draw(t, "issue")
	case 11:
		return rapid.SampledFrom([]string{"3", "0", "-1", "13", "101", "10000000000000000000000", "999999999999999999999999999999999999999999999999999999999999", "1e3", "0x10", " 5"}).Draw(t, "numstr")
	case 12:
		return "name" + fmt.Sprintf("%08d", rapid.IntRange(0, 3).Draw(t, "nm"))
	case 13:
		return rapid.SampledFrom([]string{types.AergoSystem, types.AergoName, types.AergoVault, types.AergoEnterprise}).Draw(t, "special")
	case 14:
		return rapid.SampledFrom([]string{"rpcpermissions", "p2pwhite", "p2pblack", "accountwhite", "nosuchconf", "RPCPERMISSIONS"}).Draw(t, "conf")
	case 15:
		return rapid.SampledFrom([]string{"dGVzdA==:RWS", "abc", ":", "dGVzdA==:", "16Uiu2HAmP...:X"}).Draw(t, "confval")
	case 16:
		// non-ASCII and exactly-12-byte names with characters outside the allowed set
		return rapid.SampledFrom([]string{"héllo世界12", "abcdefghijé", "世界世界", "name0000000\x7f", "name-0000001", "NAME00000001", "name 0000001", "name0000000\u0000", "aergo.system", "éééééé"}).Draw(t, "oddName")
	default:
		return rapid.StringN(0, 20, 40).Draw(t, "anystr")
	}
}

var callNames = []string{"v1stake", "v1unstake", "v1voteBP", "v1voteDAO", "v1createName", "v1updateName", "v1setOwner",
	"appendAdmin", "removeAdmin", "setConf", "appendConf", "removeConf", "enableConf", "disableConf", "changeCluster", "v1nosuch", "", "v2stake"}

func drawPayload(t *rapid.T, w *vnode.World) (string, []byte) {
	switch rapid.IntRange(0, 12).Draw(t, "payloadKind") {
	case 12:
		// a program for the stub VM (calls and fee-delegated calls to the deployed contract)
		var ops [][]string
		for i, n := 0, rapid.IntRange(0, 3).Draw(t, "nops"); i < n; i++ {
			ops = append(ops, rapid.SampledFrom([][]string{{"set", "a", "1"}, {"del", "a"}, {"event", "e"}, {"burn", "200000"}, {"fail", "boom"}, {"sysfail"}, {"set"}, {"nosuchop"}}).Draw(t, "sop"))
		}
		return fmt.Sprintf("stub:%v", ops), vnode.StubProgram(ops...)
	case 0:
		return "raw:empty", nil
	case 1:
		return "raw:garbage", rapid.SliceOfN(rapid.Byte(), 1, 40).Draw(t, "garbage")
	case 2:
		raw := rapid.SampledFrom([]string{`{}`, `[]`, `null`, `"x"`, `{"Name":"v1voteBP"}`, `{"Name":"v1voteBP","Args":null}`, `{"Name":123,"Args":[]}`,
			`{"Name":"v1voteBP","Args":{"a":1}}`, `{"Name":"v1createName","Args":"abcdefghijkl"}`, `{"Name":"v1voteDAO","Args":[]}`, `{"Name":"v1setOwner"}`,
			`{"name":"v1stake","args":[]}`, `{"Name":"v1stake","Args":[],"Extra":1}`, `{"Name":"appendAdmin","Args":[null]}`, `{"Name":"changeCluster","Args":[{"command":"add"}]}`,
			`{"Name":"changeCluster","Args":[{"command":"remove","id":"x"}]}`, `{"Name":"v1updateName","Args":["name00000001"]}`}).Draw(t, "rawjson")
		return "raw:" + raw, []byte(raw)
	case 3, 4, 5, 6:
		// a well-formed call, then one structural mutation (drop / add / replace an argument)
		tmpl := map[string][]interface{}{
			"v1stake": {}, "v1unstake": {},
			"v1voteBP":     {vnode.BPN(0).Enc(), vnode.BPN(1).Enc()},
			"v1voteDAO":    {rapid.SampledFrom([]string{"BPCOUNT", "STAKINGMIN", "GASPRICE", "NAMEPRICE"}).Draw(t, "tIssue"), rapid.SampledFrom([]string{"3", "13", "50000000000", "10000000000000000000000"}).Draw(t, "tVal")},
			"v1createName": {rapid.SampledFrom([]string{"name00000000", "name00000001", "name00000002", "abcdefghijé", "世界世界", "NAME00000001", "name-0000001"}).Draw(t, "tName")},
			"v1updateName": {"name00000001", vnode.KeyN(1).Enc()},
			"v1setOwner":   {vnode.KeyN(1).Enc()},
			"appendAdmin":  {vnode.KeyN(0).Enc()}, "removeAdmin": {vnode.KeyN(0).Enc()},
			"setConf":    {"rpcpermissions", "dGVzdA==:RWS"},
			"appendConf": {"accountwhite", vnode.KeyN(1).Enc()}, "removeConf": {"accountwhite", vnode.KeyN(1).Enc()},
			"enableConf": {"accountwhite", true},
		}
		names := make([]string, 0, len(tmpl))
		for k := range tmpl {
			names = append(names, k)
		}
		sort.Strings(names)
		name := rapid.SampledFrom(names).Draw(t, "tCall")
		args := append([]interface{}{}, tmpl[name]...)
		mut := rapid.SampledFrom([]string{"none", "drop-last", "drop-first", "add", "replace", "dup"}).Draw(t, "tMut")
		switch mut {
		case "drop-last":
			if len(args) > 0 {
				args = args[:len(args)-1]
			}
		case "drop-first":
			if len(args) > 0 {
				args = args[1:]
			}
		case "add":
			args = append(args, drawArg(t, w))
		case "replace":
			if len(args) > 0 {
				args[rapid.IntRange(0, len(args)-1).Draw(t, "tPos")] = drawArg(t, w)
			}
		case "dup":
			if len(args) > 0 {
				args = append(args, args[len(args)-1])
			}
		}
		b, _ := json.Marshal(map[string]interface{}{"Name": name, "Args": args})
		return fmt.Sprintf("%s/%s", name, mut), b
	default:
		name := rapid.SampledFrom(callNames).Draw(t, "callName")
		n := rapid.IntRange(0, 4).Draw(t, "nargs")
		args := []interface{}{}
		for i := 0; i < n; i++ {
			args = append(args, drawArg(t, w))
		}
		b, _ := json.Marshal(map[string]interface{}{"Name": name, "Args": args})
		return fmt.Sprintf("%s/%d", name, n), b
	}
}

func TestC14Admission(t *testing.T) {
	rec := ev.New("C14", "admission")
	defer rec.Flush()
	rapid.Check(t, func(t *rapid.T) {
		opts := vnode.WorldOpts{
			Consensus: rapid.SampledFrom([]string{"dpos", "dpos", "sbp", "raft"}).Draw(t, "consensus"),
			Public:    rapid.Bool().Draw(t, "public"),
			NUsers:    3, NBPs: 2,
			Hardfork: vnode.DrawHardfork(t, 4),
			Magic:    "verif.c14",
		}
		if opts.Consensus == "raft" {
			opts.Public = false
		}
		spec := vnode.NewSpec(opts)
		N, err := vnode.Open(spec, "")
		if err != nil {
			t.Fatalf("open: %v", err)
		}
		defer N.Remove()
		w := &vnode.World{NUsers: opts.NUsers, NBPs: opts.NBPs, Public: opts.Public, DPoS: opts.Consensus == "dpos"}
		prev := N.Best()
		// prefix: users 0 and 1 stake, a name and a stub contract exist
		N.SwitchTo()
		cid := N.ChainIDHashFor(prev)
		var pre []*types.Tx
		mk := func(from int, nonce uint64, typ types.TxType, rcpt []byte, amt *big.Int, payload []byte) *types.Tx {
			s := &vnode.TxSpec{From: from, Nonce: nonce, Type: typ, Recipient: rcpt, Amount: amt, Payload: payload}
			return s.Build(cid)
		}
		ci := func(name string, args ...interface{}) []byte {
			if args == nil {
				args = []interface{}{}
			}
			b, _ := json.Marshal(map[string]interface{}{"Name": name, "Args": args})
			return b
		}
		pre = append(pre, mk(0, 1, types.TxType_GOVERNANCE, []byte(types.AergoSystem), vnode.StakeMin, ci("v1stake")))
		pre = append(pre, mk(1, 1, types.TxType_GOVERNANCE, []byte(types.AergoSystem), vnode.StakeMin, ci("v1stake")))
		pre = append(pre, mk(0, 2, types.TxType_GOVERNANCE, []byte(types.AergoName), vnode.Aergo, ci("v1createName", "name00000001")))
		pre = append(pre, mk(2, 1, types.TxType_DEPLOY, nil, new(big.Int), []byte("stub-code")))
		// the contract accepts fee delegation (stub VM switch) and owns some coin to pay fees with
		fdContract := vnode.DeployedAddress(vnode.KeyN(2).Addr, 1)
		pre = append(pre, mk(2, 2, types.TxType_CALL, fdContract, new(big.Int), vnode.StubProgram([]string{"set", "_fd", "1"})))
		pre = append(pre, mk(1, 2, types.TxType_TRANSFER, fdContract, new(big.Int).Mul(vnode.Aergo, big.NewInt(5)), nil))
		p, err := N.Produce(prev, prev.GetHeader().GetTimestamp()+1e9, pre, nil)
		if err != nil {
			t.Fatal(err)
		}
		if err := N.AddOwn(p); err != nil {
			t.Fatal(err)
		}
		prev = p.Block
		N.SwitchTo()
		mp := mempool.VerifNew(N.CS.VerifCfg(), N.CS, prev)
		// the pool asks the chain service for the fee-delegation verdict: answered as the chain worker does
		poolHub := component.NewComponentHub()
		poolHub.Register(vnode.NewFDAnswerer(N), mp, vnode.NewRec(message.P2PSvc), vnode.NewRec(message.RPCSvc), vnode.NewRec(message.SyncerSvc))
		d, err := N.DumpAt(prev.GetHeader().GetBlocksRootHash())
		if err != nil {
			t.Fatal(err)
		}
		contractAddr := vnode.DeployedAddress(vnode.KeyN(2).Addr, 1)
		classes := map[string]bool{}
		var descs []string
		nontrivial := false
		ntx := rapid.IntRange(1, 6).Draw(t, "ntx")
		// coordinated parameter votes: the two stakers vote the same (possibly degenerate) value, so that it takes effect
		daoFocus := opts.Consensus == "dpos" && rapid.IntRange(0, 5).Draw(t, "daoFocus") == 0
		daoIssue := rapid.SampledFrom([]string{"GASPRICE", "NAMEPRICE", "STAKINGMIN", "BPCOUNT"}).Draw(t, "daoIssue")
		daoValue := rapid.SampledFrom([]string{"0", "1", "3", "100", "-1", "340282366920938463463374607431768211456"}).Draw(t, "daoValue")
		entFocus := !daoFocus && !opts.Public && rapid.IntRange(0, 5).Draw(t, "enterpriseFocus") == 0
		if entFocus {
			ntx = rapid.IntRange(2, 8).Draw(t, "ntxFocus")
		}
		next := map[int]uint64{}
		var admitted []*types.Tx
		daoAdmitted := 0
		for k := 0; k < ntx; k++ {
			from := rapid.IntRange(0, 2).Draw(t, "from")
			if _, ok := next[from]; !ok {
				next[from] = d.Nonce(vnode.KeyN(from).Addr) + 1
			}
			typ := rapid.SampledFrom([]types.TxType{types.TxType_GOVERNANCE, types.TxType_GOVERNANCE, types.TxType_GOVERNANCE, types.TxType_GOVERNANCE, types.TxType_NORMAL, types.TxType_TRANSFER,
				types.TxType_CALL, types.TxType_DEPLOY, types.TxType_REDEPLOY, types.TxType_MULTICALL, types.TxType_FEEDELEGATION, types.TxType(77)}).Draw(t, "type")
			var rcpt []byte
			switch rapid.IntRange(0, 11).Draw(t, "rcptKind") {
			case 0, 1, 2:
				rcpt = []byte(types.AergoSystem)
			case 3, 4:
				rcpt = []byte(types.AergoName)
			case 5:
				rcpt = []byte(types.AergoEnterprise)
			case 6:
				rcpt = vnode.KeyN(rapid.IntRange(0, 2).Draw(t, "to")).Addr
			case 7:
				rcpt = []byte("name00000001")
			case 8:
				rcpt = nil
			case 9:
				rcpt = contractAddr
			case 10:
				rcpt = rapid.SliceOfN(rapid.Byte(), 0, 50).Draw(t, "rcptBytes")
			default:
				rcpt = []byte(types.AergoVault)
			}
			pdesc, payload := drawPayload(t, w)
			if daoFocus && k < 2 {
				from = k
				if _, ok := next[from]; !ok {
					next[from] = d.Nonce(vnode.KeyN(from).Addr) + 1
				}
				typ = types.TxType_GOVERNANCE
				payload, _ = json.Marshal(map[string]interface{}{"Name": "v1voteDAO", "Args": []interface{}{daoIssue, daoValue}})
				pdesc = fmt.Sprintf("v1voteDAO/focus[%s %s]", daoIssue, daoValue)
			}
			if entFocus {
				// a history of enterprise configuration calls (private networks): what one call stores is what the
				// next one reads
				typ = types.TxType_GOVERNANCE
				name := rapid.SampledFrom([]string{"appendAdmin", "appendAdmin", "removeAdmin", "setConf", "appendConf", "removeConf", "enableConf", "disableConf"}).Draw(t, "entCall")
				addrLike := func() interface{} {
					return rapid.SampledFrom([]string{vnode.KeyN(0).Enc(), vnode.KeyN(1).Enc(), vnode.KeyN(2).Enc(), "abc", "name00000001", types.AergoSystem, "", "x.y"}).Draw(t, "entAddr")
				}
				var args []interface{}
				switch name {
				case "appendAdmin", "removeAdmin":
					args = []interface{}{addrLike()}
				case "enableConf", "disableConf":
					args = []interface{}{rapid.SampledFrom([]string{"accountwhite", "rpcpermissions", "p2pwhite"}).Draw(t, "entKey"), rapid.Bool().Draw(t, "entOn")}
				default:
					args = []interface{}{rapid.SampledFrom([]string{"accountwhite", "rpcpermissions", "p2pwhite"}).Draw(t, "entKey"), addrLike()}
				}
				payload, _ = json.Marshal(map[string]interface{}{"Name": name, "Args": args})
				pdesc = fmt.Sprintf("%s/focus%v", name, args)
			}
			if strings.HasPrefix(pdesc, "stub:") && rapid.IntRange(0, 9).Draw(t, "stubFix") > 0 {
				rcpt = contractAddr
				typ = rapid.SampledFrom([]types.TxType{types.TxType_CALL, types.TxType_FEEDELEGATION, types.TxType_FEEDELEGATION, types.TxType_NORMAL}).Draw(t, "stubType")
			}
			if typ == types.TxType_GOVERNANCE && rapid.IntRange(0, 9).Draw(t, "govRcptFix") > 0 {
				// send the call to the contract that implements it
				switch {
				case strings.HasPrefix(pdesc, "v1createName"), strings.HasPrefix(pdesc, "v1updateName"), strings.HasPrefix(pdesc, "v1setOwner"):
					rcpt = []byte(types.AergoName)
				case strings.HasPrefix(pdesc, "v1"):
					rcpt = []byte(types.AergoSystem)
				case strings.Contains(pdesc, "Admin"), strings.Contains(pdesc, "Conf"), strings.Contains(pdesc, "changeCluster"):
					rcpt = []byte(types.AergoEnterprise)
				default:
					if string(rcpt) != types.AergoSystem && string(rcpt) != types.AergoName && string(rcpt) != types.AergoEnterprise {
						rcpt = []byte(types.AergoSystem)
					}
				}
			}
			var amount []byte
			switch rapid.IntRange(0, 6).Draw(t, "amtKind") {
			case 0:
				amount = nil
			case 1:
				amount = []byte{0}
			case 2:
				amount = vnode.Aergo.Bytes()
			case 3:
				amount = vnode.StakeMin.Bytes()
			case 4:
				amount = rapid.SliceOfN(rapid.Byte(), 30, 48).Draw(t, "hugeAmt")
			case 5:
				amount = d.Balance(vnode.KeyN(from).Addr).Bytes()
			default:
				amount = append([]byte{0, 0}, vnode.Aergo.Bytes()...)
			}
			nonce := next[from]
			if rapid.IntRange(0, 9).Draw(t, "nonceFault") == 0 {
				nonce += uint64(rapid.IntRange(1, 3).Draw(t, "gap"))
			}
			body := &types.TxBody{Nonce: nonce, Account: vnode.KeyN(from).Addr, Recipient: rcpt, Amount: amount, Payload: payload, Type: typ,
				GasLimit:    uint64(rapid.SampledFrom([]int{0, 0, 1, 100000, 1 << 40}).Draw(t, "gas")),
				ChainIdHash: mp.VerifAcceptChainIDHash()}
			switch rapid.IntRange(0, 5).Draw(t, "gasPriceKind") {
			case 0:
				body.GasPrice = []byte{1}
			case 1:
				body.GasPrice = rapid.SliceOfN(rapid.Byte(), 0, 40).Draw(t, "gasPrice")
			}
			if rapid.IntRange(0, 19).Draw(t, "accKind") == 0 {
				body.Account = []byte("name00000001") // owned by user 0: sign with its key below
				from = 0
			}
			cleanVote := daoFocus && k < 2
			if cleanVote {
				// the two coordinated votes are otherwise well-formed
				body.Recipient, body.Amount, body.GasLimit, body.GasPrice, body.Nonce, body.Account = []byte(types.AergoSystem), nil, 0, nil, next[from], vnode.KeyN(from).Addr
			}
			tx := &types.Tx{Body: body}
			vnode.SignTx(tx, vnode.KeyN(from))
			if !cleanVote && rapid.IntRange(0, 29).Draw(t, "badSig") == 0 {
				tx.Body.Sign = rapid.SliceOfN(rapid.Byte(), 0, 80).Draw(t, "sig")
				tx.Hash = tx.CalculateTxHash()
			}
			desc := fmt.Sprintf("type=%v rcpt=%q payload=%s", typ, string(rcpt), pdesc)
			class := fmt.Sprintf("%v", typ)
			if typ == types.TxType_GOVERNANCE {
				class += ":" + strings.SplitN(pdesc, "/", 2)[0]
			}
			input := func() string {
				return fmt.Sprintf("%s\nbody: nonce=%d account=%x recipient=%q amount=%x gasLimit=%d gasPrice=%x type=%v\npayload: %s\nnetwork: %+v fork version of next block %d",
					desc, body.Nonce, body.Account[:4], string(body.Recipient), body.Amount, body.GasLimit, body.GasPrice, body.Type, string(body.Payload), opts, N.CS.VerifHardfork().Version(prev.BlockNo()+1))
			}
			// (1) admission
			var admitErr error
			{
				pp, st := guard(func() { admitErr = mp.VerifAdmit(tx) })
				if pp != nil {
					site := panicSite(st)
					t.Fatalf("admission of a transaction panicked: %v\nat %s\n%s\n%s", pp, site, input(), st)
				}
			}
			if admitErr != nil {
				classes["refused:"+class] = true
				descs = append(descs, desc+" => refused")
				continue
			}
			nontrivial = true
			classes["admitted:"+class] = true
			descs = append(descs, desc+" => admitted")
			if body.Nonce == next[from] {
				next[from]++
				admitted = append(admitted, tx)
				if daoFocus && k < 2 {
					daoAdmitted++
				}
			}
		}
		// (2) execution of everything admitted, in both modes
		for _, mode := range []int{contract.BlockFactory, contract.ChainService} {
			N.SwitchTo()
			vb := N.NewVBlock(prev.GetHeader().GetBlocksRootHash(), prev.BlockNo()+1, prev.GetHeader().GetTimestamp()+1e9, mode)
			for _, tx := range admitted {
				out := vb.Apply(tx)
				if out.Panic != nil {
					site := panicSite(out.Stack)
					if (strings.HasSuffix(site, "(*VoteResult).AddVote") || strings.HasSuffix(site, "(*VoteResult).SubVote")) && hasOddLengthCandidate(tx) &&
						rec.IsKnown("votebp-candidate-not-39-bytes") {
						rec.Excluded("votebp-candidate-not-39-bytes")
						classes["known:votebp-candidate-not-39-bytes"] = true
						break // the block state may be inconsistent after a panic
					}
					t.Fatalf("execution (mode %d) of a transaction that passed pool admission panicked: %v\nat %s\ntx: type=%v recipient=%q payload=%s\n%s", mode, out.Panic, site, tx.Body.Type, string(tx.Body.Recipient), string(tx.Body.Payload), out.Stack)
				}
				classes["exec:"+out.Kind()] = true
			}
			if _, err := vb.Finish(true, vnode.KeyN(500).Addr); err != nil {
				classes["finish-error"] = true
			}
		}
		if daoFocus {
			classes[fmt.Sprintf("coordinated-vote %s=%s admitted by %d of 2 stakers", daoIssue, daoValue, daoAdmitted)] = true
		}
		// (3) what the admitted transactions did to the node takes effect: they are put into a real block, the block is
		// connected (parameter votes are activated at that point), and ordinary traffic must still be admitted or
		// refused cleanly and execute without a crash on the new state
		if len(admitted) > 0 && !classes["known:votebp-candidate-not-39-bytes"] {
			N.SwitchTo()
			var p2 *vnode.Produced
			pp, st := guard(func() {
				var err error
				p2, err = N.Produce(prev, prev.GetHeader().GetTimestamp()+1e9, admitted, nil)
				if err == nil {
					err = N.AddOwn(p2)
				}
				if err != nil {
					p2 = nil
					classes["round2-block-not-made"] = true
				}
			})
			if pp != nil {
				t.Fatalf("producing / connecting a block of admitted transactions panicked: %v\nat %s\ntxs: %s\n%s", pp, panicSite(st), strings.Join(descs, " | "), st)
			}
			if p2 != nil {
				// (no context switch here: the node keeps running with what connecting the block left in memory)
				mp2 := mempool.VerifNew(N.CS.VerifCfg(), N.CS, p2.Block)
				hub2 := component.NewComponentHub()
				hub2.Register(vnode.NewFDAnswerer(N), mp2, vnode.NewRec(message.P2PSvc), vnode.NewRec(message.RPCSvc), vnode.NewRec(message.SyncerSvc))
				d2, err := N.DumpAt(p2.Block.GetHeader().GetBlocksRootHash())
				if err != nil {
					t.Fatal(err)
				}
				// the parameters the node now works with are those a node restarted on this state would load
				if scs, err := statedb.GetSystemAccountState(N.CS.SDB().OpenNewStateDB(p2.Block.GetHeader().GetBlocksRootHash())); err == nil {
					if diff := system.VerifParamsMatchState(scs); diff != "" {
						t.Fatalf("after the block [%s] was connected the active system parameters differ from the stored ones: %s", strings.Join(descs, " | "), diff)
					}
				}
				cid2 := mp2.VerifAcceptChainIDHash()
				var ordinary []*types.Tx
				for u := 0; u < 3; u++ {
					n := d2.Nonce(vnode.KeyN(u).Addr)
					specs := []*vnode.TxSpec{
						{Kind: "transfer", From: u, Nonce: n + 1, Type: types.TxType_TRANSFER, Recipient: vnode.KeyN((u + 1) % 3).Addr, Amount: vnode.Aergo},
						{Kind: "call", From: u, Nonce: n + 2, Type: types.TxType_CALL, Recipient: contractAddr, Amount: new(big.Int), Payload: vnode.StubProgram([]string{"set", "k", "v"}), GasLimit: 100000},
						{Kind: "stake", From: u, Nonce: n + 3, Type: types.TxType_GOVERNANCE, Recipient: []byte(types.AergoSystem), Amount: vnode.StakeMin, Payload: vnode.CallInfo("v1stake")},
						{Kind: "votedao", From: u, Nonce: n + 4, Type: types.TxType_GOVERNANCE, Recipient: []byte(types.AergoSystem), Amount: new(big.Int), Payload: vnode.CallInfo("v1voteDAO", "BPCOUNT", "3")},
						{Kind: "name", From: u, Nonce: n + 5, Type: types.TxType_GOVERNANCE, Recipient: []byte(types.AergoName), Amount: vnode.Aergo, Payload: vnode.CallInfo("v1createName", fmt.Sprintf("round2name%02d", u))},
					}
					if u == 2 {
						// a very small stake and a vote with it (possible once the staking minimum was voted down)
						specs = []*vnode.TxSpec{
							{Kind: "tiny-stake", From: u, Nonce: n + 1, Type: types.TxType_GOVERNANCE, Recipient: []byte(types.AergoSystem), Amount: big.NewInt(50), Payload: vnode.CallInfo("v1stake")},
							{Kind: "tiny-vote", From: u, Nonce: n + 2, Type: types.TxType_GOVERNANCE, Recipient: []byte(types.AergoSystem), Amount: new(big.Int), Payload: vnode.CallInfo("v1voteDAO", "GASPRICE", "50000000000")},
							specs[0], specs[1],
						}
						specs[2].Nonce, specs[3].Nonce = n+3, n+4
					}
					for _, sp := range specs {
						tx := sp.Build(cid2)
						var aerr error
						pp, st := guard(func() { aerr = mp2.VerifAdmit(tx) })
						if pp != nil {
							t.Fatalf("after the block [%s] was connected, admission of an ordinary %s transaction panicked: %v\nat %s\n%s", strings.Join(descs, " | "), sp.Kind, pp, panicSite(st), st)
						}
						if aerr == nil {
							ordinary = append(ordinary, tx)
							if strings.HasPrefix(sp.Kind, "tiny-") {
								classes["round2-"+sp.Kind+"-admitted"] = true
							}
						} else if u == 2 && sp.Kind == "tiny-stake" {
							if daoFocus && daoIssue == "STAKINGMIN" && daoValue == "1" && daoAdmitted == 2 {
								rec.Label("tiny stake refused after STAKINGMIN=1 vote: " + aerr.Error())
							}
							// refused (the staking minimum is what it was): go on with ordinary traffic from the same nonce
							specs[2].Nonce, specs[3].Nonce = n+1, n+2
							specs = append(specs[:0:0], specs[2], specs[3])
							for _, sp2 := range specs {
								tx2 := sp2.Build(cid2)
								var e2 error
								if pp, st := guard(func() { e2 = mp2.VerifAdmit(tx2) }); pp != nil {
									t.Fatalf("after the block [%s] was connected, admission of an ordinary %s transaction panicked: %v\nat %s\n%s", strings.Join(descs, " | "), sp2.Kind, pp, panicSite(st), st)
								}
								if e2 != nil {
									break
								}
								ordinary = append(ordinary, tx2)
							}
							break
						} else {
							break // later nonces of this sender would only wait
						}
					}
				}
				vb := N.NewVBlock(p2.Block.GetHeader().GetBlocksRootHash(), p2.Block.BlockNo()+1, p2.Block.GetHeader().GetTimestamp()+1e9, contract.ChainService)
				for _, tx := range ordinary {
					out := vb.Apply(tx)
					if out.Panic != nil {
						t.Fatalf("after the block [%s] was connected, execution of an ordinary transaction (type %v) that passed pool admission panicked: %v\nat %s\n%s", strings.Join(descs, " | "), tx.Body.Type, out.Panic, panicSite(out.Stack), out.Stack)
					}
				}
				classes[fmt.Sprintf("round2-ordinary-admitted=%d", min(len(ordinary), 5))] = true
				// (4) one block later: the account that could stake a tiny amount votes with it
				if classes["round2-tiny-stake-admitted"] {
					var p3 *vnode.Produced
					pp, st := guard(func() {
						var err error
						p3, err = N.Produce(p2.Block, p2.Block.GetHeader().GetTimestamp()+1e9, ordinary, nil)
						if err == nil {
							err = N.AddOwn(p3)
						}
						if err != nil {
							p3 = nil
						}
					})
					if pp != nil {
						t.Fatalf("producing / connecting the block of ordinary transactions panicked: %v\nat %s\n%s", pp, panicSite(st), st)
					}
					if p3 != nil {
						mp3 := mempool.VerifNew(N.CS.VerifCfg(), N.CS, p3.Block)
						hub3 := component.NewComponentHub()
						hub3.Register(vnode.NewFDAnswerer(N), mp3, vnode.NewRec(message.P2PSvc), vnode.NewRec(message.RPCSvc), vnode.NewRec(message.SyncerSvc))
						d3, err := N.DumpAt(p3.Block.GetHeader().GetBlocksRootHash())
						if err != nil {
							t.Fatal(err)
						}
						sp := &vnode.TxSpec{Kind: "tiny-vote", From: 2, Nonce: d3.Nonce(vnode.KeyN(2).Addr) + 1, Type: types.TxType_GOVERNANCE, Recipient: []byte(types.AergoSystem), Amount: new(big.Int), Payload: vnode.CallInfo("v1voteDAO", "GASPRICE", "50000000000")}
						tx := sp.Build(mp3.VerifAcceptChainIDHash())
						var aerr error
						if pp, st := guard(func() { aerr = mp3.VerifAdmit(tx) }); pp != nil {
							t.Fatalf("admission of a parameter vote by an account with a tiny stake panicked: %v\nat %s\n%s", pp, panicSite(st), st)
						}
						if aerr == nil {
							classes["round3-tiny-vote-admitted"] = true
							vb3 := N.NewVBlock(p3.Block.GetHeader().GetBlocksRootHash(), p3.Block.BlockNo()+1, p3.Block.GetHeader().GetTimestamp()+1e9, contract.ChainService)
							if out := vb3.Apply(tx); out.Panic != nil {
								t.Fatalf("after [%s] took effect, a parameter vote by an account that staked 50 aer passed pool admission and panicked in execution: %v\nat %s\n%s", strings.Join(descs, " | "), out.Panic, panicSite(out.Stack), out.Stack)
							}
						}
					}
				}
			}
		}
		var cl []string
		for c := range classes {
			cl = append(cl, c)
		}
		sort.Strings(cl)
		rec.Case(strings.Join(cl, ","), fmt.Sprintf("%+v|%s", opts, strings.Join(descs, "|")), nontrivial, func() interface{} {
			return map[string]interface{}{"consensus": opts.Consensus, "public": opts.Public, "txs": descs}
		})
	})
}

// known: C14 votebp-candidate-not-39-bytes — deterministic reproduction
func TestC14KnownOddCandidate(t *testing.T) {
	rec := ev.New("C14", "known-odd-candidate")
	defer rec.Flush()
	opts := vnode.WorldOpts{Consensus: "dpos", Public: false, NUsers: 2, NBPs: 1, Magic: "verif.c14k"}
	N, err := vnode.Open(vnode.NewSpec(opts), "")
	if err != nil {
		t.Fatal(err)
	}
	defer N.Remove()
	N.SwitchTo()
	prev := N.Best()
	cid := N.ChainIDHashFor(prev)
	ci := func(name string, args ...interface{}) []byte {
		if args == nil {
			args = []interface{}{}
		}
		b, _ := json.Marshal(map[string]interface{}{"Name": name, "Args": args})
		return b
	}
	stake := (&vnode.TxSpec{From: 0, Nonce: 1, Type: types.TxType_GOVERNANCE, Recipient: []byte(types.AergoSystem), Amount: vnode.StakeMin, Payload: ci("v1stake")}).Build(cid)
	p, err := N.Produce(prev, prev.GetHeader().GetTimestamp()+1e9, []*types.Tx{stake}, nil)
	if err != nil || len(p.Included) != 1 {
		t.Fatalf("harness: stake not included: %v", err)
	}
	if err := N.AddOwn(p); err != nil {
		t.Fatal(err)
	}
	prev = p.Block
	N.SwitchTo()
	mp := mempool.VerifNew(N.CS.VerifCfg(), N.CS, prev)
	vote := &types.Tx{Body: &types.TxBody{Nonce: 2, Account: vnode.KeyN(0).Addr, Recipient: []byte(types.AergoSystem), Type: types.TxType_GOVERNANCE,
		Payload: ci("v1voteBP", "2NT"), ChainIdHash: mp.VerifAcceptChainIDHash()}}
	vnode.SignTx(vote, vnode.KeyN(0))
	rec.Case("regression", "odd-candidate", true, func() interface{} { return string(vote.Body.Payload) })
	rec.Case("regression", "odd-candidate-2", true, func() interface{} { return "second fingerprint of the same input" })
	var admitErr error
	if pp, st := guard(func() { admitErr = mp.VerifAdmit(vote) }); pp != nil {
		t.Fatalf("admission panicked: %v\n%s", pp, st)
	}
	if admitErr != nil {
		return // refused at admission: the finding is gone
	}
	vb := N.NewVBlock(prev.GetHeader().GetBlocksRootHash(), prev.BlockNo()+1, prev.GetHeader().GetTimestamp()+1e9, contract.BlockFactory)
	out := vb.Apply(vote)
	if out.Panic == nil {
		return
	}
	if rec.IsKnown("votebp-candidate-not-39-bytes") && hasOddLengthCandidate(vote) {
		rec.Excluded("votebp-candidate-not-39-bytes")
		return
	}
	t.Fatalf("a producer vote with the 2-byte candidate \"2NT\" passed pool admission and panicked in execution: %v\n%s", out.Panic, out.Stack)
}
