//go:build verif

package c02

// C02 — deterministic execution: same block + same prior state => same state root, receipts
// and receipts root, on every node and every repetition; every block the producer path builds
// is accepted by the validator path with identical results; transactions the producer skipped
// have no influence on the block.
//
// Oracle (differential + metamorphic):
//  (1) the block built on node P is re-executed k times in verify-only mode on node V (whose
//      state is at the parent) — each repetition iterates Go maps in a fresh random order and
//      schedules the trie goroutines differently — and then connected through addBlock; every
//      repetition must yield P's state root, receipts root and byte-identical receipts;
//  (2) producing again on P from the same parent with ONLY the transactions that were included
//      yields the identical block (hash), so skipped transactions left no trace.

import (
	"bytes"
	"fmt"
	"runtime"
	"sort"
	"strings"
	"testing"

	"github.com/aergoio/aergo/v2/types"
	"github.com/aergoio/aergo/v2/verifx/ev"
	"github.com/aergoio/aergo/v2/verifx/vnode"
	"pgregory.net/rapid"
)

func TestC02Determinism(t *testing.T) {
	rec := ev.New("C02", "determinism")
	defer rec.Flush()
	reps := ev.IntEnv("VERIF_C02_REPS", 3)
	if p := ev.IntEnv("VERIF_GOMAXPROCS", 0); p > 0 {
		runtime.GOMAXPROCS(p)
	}
	rapid.Check(t, func(t *rapid.T) {
		opts := vnode.WorldOpts{
			Consensus: rapid.SampledFrom([]string{"dpos", "dpos", "dpos", "sbp"}).Draw(t, "consensus"),
			Public:    rapid.Bool().Draw(t, "public"),
			NUsers:    rapid.IntRange(3, 6).Draw(t, "nusers"),
			NBPs:      rapid.IntRange(1, 4).Draw(t, "nbps"),
			Hardfork:  vnode.DrawHardfork(t, 6),
			Magic:     "verif.c02",
		}
		votingReward := opts.Consensus == "dpos" && rapid.IntRange(0, 3).Draw(t, "votingReward") > 0
		opts.FundVault = votingReward
		spec := vnode.NewSpec(opts)
		spec.VotingReward = votingReward
		P, err := vnode.Open(spec, "")
		if err != nil {
			t.Fatal(err)
		}
		defer P.Remove()
		V, err := vnode.Open(spec, "")
		if err != nil {
			t.Fatal(err)
		}
		defer V.Remove()
		w := &vnode.World{NUsers: opts.NUsers, NBPs: opts.NBPs, Public: opts.Public, DPoS: opts.Consensus == "dpos", GovBias: true,
			TieBias: rapid.Bool().Draw(t, "tieBias")}
		prev := P.Best()
		nblocks := rapid.IntRange(1, 5).Draw(t, "nblocks")
		classes := map[string]bool{fmt.Sprintf("votingReward=%v", votingReward): true}
		nontrivial := false
		var hist []string
		for b := 0; b < nblocks; b++ {
			P.SwitchTo()
			var coinbase []byte
			if rapid.Bool().Draw(t, "hasCoinbase") {
				coinbase = vnode.KeyN(500).Addr
			}
			cands, specs, err := P.DrawCandidates(t, w, prev, 10)
			if err != nil {
				t.Fatal(err)
			}
			ts := prev.GetHeader().GetTimestamp() + 1000000000
			// in some blocks the block-generation deadline passes while one of the candidates is being executed
			expireDuring := -1
			if len(cands) > 0 && rapid.IntRange(0, 3).Draw(t, "deadline") == 0 {
				expireDuring = rapid.IntRange(0, len(cands)-1).Draw(t, "deadlineDuring")
				classes["deadline-during-a-transaction"] = true
			}
			p, err := P.ProduceUntil(prev, ts, cands, coinbase, expireDuring)
			if err != nil {
				t.Fatalf("produce: %v", err)
			}
			ver := types.DecodeChainIdVersion(p.Block.GetHeader().GetChainID())
			classes[fmt.Sprintf("forkversion=%d", ver)] = true
			var bdesc []string
			inc := map[string]bool{}
			for _, tx := range p.Included {
				inc[string(tx.GetHash())] = true
			}
			gov := map[string]int{}
			for i, tx := range cands {
				if inc[string(tx.GetHash())] {
					k := strings.SplitN(specs[i].Kind, "+", 2)[0]
					bdesc = append(bdesc, fmt.Sprintf("%s(u%d)", specs[i].Kind, specs[i].From))
					if k == "votebp" || k == "votedao" || k == "stake" || k == "unstake" {
						gov[k]++
					}
				} else {
					bdesc = append(bdesc, "("+specs[i].Kind+" skipped)")
				}
			}
			if gov["votebp"]+gov["votedao"] >= 2 || gov["votebp"]+gov["stake"] >= 2 && gov["votebp"] >= 1 {
				classes[">=2-governance-txs-on-one-issue"] = true
				nontrivial = true
			}
			if len(p.Skipped) > 0 {
				classes["skipped-tx"] = true
				nontrivial = true
			}
			hist = append(hist, fmt.Sprintf("v%d [%s]", ver, strings.Join(bdesc, ", ")))
			wantRoot := p.Block.GetHeader().GetBlocksRootHash()
			wantRRoot := p.Block.GetHeader().GetReceiptsRootHash()
			wantBin, err := p.BState.Receipts().MarshalBinary()
			if err != nil {
				t.Fatal(err)
			}
			// (2) metamorphic: skipped transactions have no effect
			if len(p.Skipped) > 0 {
				P.SwitchTo()
				p2, err := P.Produce(prev, ts, p.Included, coinbase)
				if err != nil {
					t.Fatalf("re-produce: %v", err)
				}
				if !bytes.Equal(p2.Block.BlockHash(), p.Block.BlockHash()) {
					t.Fatalf("block %d: producing with and without the %d skipped transactions gives different blocks (state root %x vs %x, receipts root %x vs %x, %d vs %d txs)\ntxs: %s",
						p.Block.BlockNo(), len(p.Skipped), p.Block.GetHeader().GetBlocksRootHash(), p2.Block.GetHeader().GetBlocksRootHash(),
						p.Block.GetHeader().GetReceiptsRootHash(), p2.Block.GetHeader().GetReceiptsRootHash(), len(p.Block.GetBody().GetTxs()), len(p2.Block.GetBody().GetTxs()), strings.Join(bdesc, ", "))
				}
			}
			// (1) repeated validator executions on V
			for r := 0; r < reps; r++ {
				V.SwitchTo()
				root, bin, rroot, err := V.CS.VerifReexecute(vnode.CloneBlock(p.Block))
				if err != nil {
					t.Fatalf("block %d: validator re-execution #%d of a block built by the producer path failed: %v\ntxs: %s", p.Block.BlockNo(), r, err, strings.Join(bdesc, ", "))
				}
				if !bytes.Equal(root, wantRoot) || !bytes.Equal(rroot, wantRRoot) {
					t.Fatalf("block %d repetition %d: roots differ from the producer's (state %x vs %x, receipts %x vs %x)", p.Block.BlockNo(), r, root, wantRoot, rroot, wantRRoot)
				}
				if !bytes.Equal(bin, wantBin) {
					t.Fatalf("block %d repetition %d: receipts bytes differ from the producer's", p.Block.BlockNo(), r)
				}
			}
			V.SwitchTo()
			if err := V.AddPeer(p.Block); err != nil {
				t.Fatalf("block %d built by the producer path rejected by the validator path: %v\ntxs: %s", p.Block.BlockNo(), err, strings.Join(bdesc, ", "))
			}
			if !bytes.Equal(V.CS.SDB().GetRoot(), wantRoot) {
				t.Fatalf("validator state root %x != producer's %x after block %d", V.CS.SDB().GetRoot(), wantRoot, p.Block.BlockNo())
			}
			if len(p.Block.GetBody().GetTxs()) > 0 {
				stored, err := V.CS.VerifRawReceipts(p.Block.BlockHash(), p.Block.BlockNo())
				if err != nil {
					t.Fatalf("validator has no receipts for block %d: %v", p.Block.BlockNo(), err)
				}
				sb, _ := stored.MarshalBinary()
				if !bytes.Equal(sb, wantBin) {
					t.Fatalf("receipts stored by the validator differ from the producer's for block %d", p.Block.BlockNo())
				}
			}
			P.SwitchTo()
			if err := P.AddOwn(p); err != nil {
				t.Fatalf("producer could not connect its own block: %v", err)
			}
			w.Learn(p, specs)
			prev = p.Block
		}
		var cl []string
		for c := range classes {
			cl = append(cl, c)
		}
		sort.Strings(cl)
		canon := fmt.Sprintf("%+v|%s", opts, strings.Join(hist, "|"))
		rec.Case(strings.Join(cl, ","), canon, nontrivial, func() interface{} {
			return map[string]interface{}{"consensus": opts.Consensus, "public": opts.Public, "votingReward": votingReward, "hardfork": fmt.Sprintf("%+v", opts.Hardfork), "blocks": hist}
		})
	})
}
