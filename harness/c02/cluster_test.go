//go:build verif

package c02

// C02 (raft networks) — "every block that the block-production path builds ... is accepted, with identical roots,
// by the validation path of a fresh node". On a raft network the producer is the raft leader and every other node
// only validates; the two differ in what the consensus layer answers when an enterprise changeCluster transaction asks
// for a cluster-change proposal (leader: a proposal, follower: "skip"). Blocks with generated mixes of changeCluster
// requests (add / remove, valid and malformed, by the admin and by others), admin changes and transfers are built on
// a leader-like node and must be connected with the same roots by a follower-like node.

import (
	"bytes"
	"fmt"
	"strings"
	"testing"

	"github.com/aergoio/aergo/v2/consensus"
	"github.com/aergoio/aergo/v2/types"
	"github.com/aergoio/aergo/v2/verifx/ev"
	"github.com/aergoio/aergo/v2/verifx/vnode"
	"pgregory.net/rapid"
)

func TestC02ClusterChanges(t *testing.T) {
	rec := ev.New("C02", "cluster-changes")
	defer rec.Flush()
	saved := consensus.CurConsensusType
	consensus.SetCurConsensus("raft")
	defer func() { consensus.CurConsensusType = saved }()
	rapid.Check(t, func(t *rapid.T) {
		opts := vnode.WorldOpts{Consensus: "raft", Public: false, NUsers: 3, NBPs: 1, Hardfork: vnode.DrawHardfork(t, 4), Magic: "verif.c02r"}
		spec := vnode.NewSpec(opts)
		P, err := vnode.Open(spec, "")
		if err != nil {
			t.Fatal(err)
		}
		defer P.Remove()
		V, err := vnode.Open(spec, "")
		if err != nil {
			t.Fatal(err)
		}
		defer V.Remove()
		P.CC.Leader = true
		P.SwitchTo()
		prev := P.Best()
		nonce := map[int]uint64{}
		build := func(from int, payload []byte) *types.Tx {
			nonce[from]++
			return (&vnode.TxSpec{Kind: "enterprise", From: from, Nonce: nonce[from], Type: types.TxType_GOVERNANCE, Recipient: []byte(types.AergoEnterprise), Payload: payload}).Build(P.ChainIDHashFor(prev))
		}
		var hist []string
		ccInBlockMax := 0
		nblocks := rapid.IntRange(2, 4).Draw(t, "blocks")
		for b := 0; b < nblocks; b++ {
			var cands []*types.Tx
			var bdesc []string
			if b == 0 {
				cands = append(cands, build(0, vnode.CallInfo("appendAdmin", vnode.KeyN(0).Enc())))
				bdesc = append(bdesc, "appendAdmin(u0)")
			}
			ntx := rapid.IntRange(1, 4).Draw(t, "ntx")
			cc := 0
			for k := 0; k < ntx; k++ {
				from := rapid.SampledFrom([]int{0, 0, 0, 1}).Draw(t, "from")
				switch kind := rapid.SampledFrom([]string{"cc-remove", "cc-remove", "cc-add", "cc-bad", "appendAdmin", "transfer"}).Draw(t, "kind"); kind {
				case "cc-remove":
					id := fmt.Sprintf("%x", rapid.Uint64Range(1, 1<<40).Draw(t, "memberID"))
					cands = append(cands, build(from, vnode.CallInfo("changeCluster", map[string]interface{}{"command": "remove", "id": id})))
					bdesc = append(bdesc, fmt.Sprintf("changeCluster(u%d,remove %s)", from, id))
					cc++
				case "cc-add":
					nm := fmt.Sprintf("node%d", rapid.IntRange(2, 9).Draw(t, "newNode"))
					cands = append(cands, build(from, vnode.CallInfo("changeCluster", map[string]interface{}{"command": "add", "name": nm, "address": "/ip4/10.0.0.9/tcp/7846", "peerid": vnode.BPN(3).Enc()})))
					bdesc = append(bdesc, fmt.Sprintf("changeCluster(u%d,add %s)", from, nm))
					cc++
				case "cc-bad":
					cands = append(cands, build(from, vnode.CallInfo("changeCluster", map[string]interface{}{"command": rapid.SampledFrom([]string{"remove", "add", "nop"}).Draw(t, "badCmd")})))
					bdesc = append(bdesc, fmt.Sprintf("changeCluster(u%d,malformed)", from))
				case "appendAdmin":
					cands = append(cands, build(from, vnode.CallInfo("appendAdmin", vnode.KeyN(rapid.IntRange(0, 2).Draw(t, "admin")).Enc())))
					bdesc = append(bdesc, fmt.Sprintf("appendAdmin(by u%d)", from))
				default:
					nonce[from]++
					cands = append(cands, (&vnode.TxSpec{Kind: "transfer", From: from, Nonce: nonce[from], Type: types.TxType_TRANSFER, Recipient: vnode.KeyN(2).Addr, Amount: vnode.Aergo}).Build(P.ChainIDHashFor(prev)))
					bdesc = append(bdesc, fmt.Sprintf("transfer(u%d)", from))
				}
			}
			if cc > ccInBlockMax {
				ccInBlockMax = cc
			}
			P.SwitchTo()
			p, err := P.Produce(prev, prev.GetHeader().GetTimestamp()+1e9, cands, nil)
			if err != nil {
				t.Fatalf("produce: %v", err)
			}
			if err := P.AddOwn(p); err != nil {
				t.Fatalf("the leader could not connect its own block: %v", err)
			}
			// nonces of transactions the producer left out are free again
			d, err := P.DumpAt(p.Block.GetHeader().GetBlocksRootHash())
			if err != nil {
				t.Fatal(err)
			}
			for u := 0; u < 3; u++ {
				nonce[u] = d.Nonce(vnode.KeyN(u).Addr)
			}
			var st []string
			for _, r := range p.BState.Receipts().Get() {
				st = append(st, r.Status)
			}
			hist = append(hist, fmt.Sprintf("block %d [%s] included %d, receipts %v", p.Block.BlockNo(), strings.Join(bdesc, ", "), len(p.Included), st))
			V.SwitchTo()
			if err := V.AddPeer(p.Block); err != nil {
				t.Fatalf("a follower refused the block the leader built: %v\nhistory: %s", err, strings.Join(hist, " | "))
			}
			if !bytes.Equal(V.Best().BlockHash(), p.Block.BlockHash()) {
				t.Fatalf("the follower did not connect the leader's block\nhistory: %s", strings.Join(hist, " | "))
			}
			prev = p.Block
		}
		rec.Case(fmt.Sprintf("max-cluster-changes-per-block=%d", ccInBlockMax), fmt.Sprintf("%+v|%s", opts, strings.Join(hist, "|")), ccInBlockMax >= 2, func() interface{} { return hist })
	})
}
