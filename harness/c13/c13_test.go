//go:build verif

package c13

// C13 — transaction pool. A rapid state machine drives a REAL MemPool attached to a REAL chain
// service: submissions in arbitrary nonce order (duplicates, same-nonce replacements), removals,
// blocks built from the pool or from outside transactions, and real reorganisations of the
// node. The pool sees exactly the notifications the chain service emits (MemPoolDel per executed
// block, MemPoolPut per abandoned transaction), relayed in order. After every step the pool's
// own bookkeeping (per-account lists, ready prefixes, hash cache, counters) and what it offers
// to producers are checked against the account nonces of the node's current state.

import (
	"bytes"
	"fmt"
	"google.golang.org/protobuf/proto"
	"math/big"
	"sort"
	"strings"
	"testing"
	"time"

	"github.com/aergoio/aergo/v2/account/key"
	"github.com/aergoio/aergo/v2/contract/name"
	"github.com/aergoio/aergo/v2/mempool"
	"github.com/aergoio/aergo/v2/state/statedb"
	"github.com/aergoio/aergo/v2/types"
	"github.com/aergoio/aergo/v2/types/message"
	"github.com/aergoio/aergo/v2/verifx/ev"
	"github.com/aergoio/aergo/v2/verifx/vnode"
	"pgregory.net/rapid"
)

type machine struct {
	t                                                    *rapid.T
	N                                                    *vnode.Node
	mp                                                   *mempool.MemPool
	nusers                                               int
	hist                                                 []string
	seq                                                  int
	made                                                 map[string]*types.Tx // every tx ever built, by hash
	reorgs                                               int
	gapFills, removedInRun, stateChanges, evictedWithGap, failedReorgs int
	name                                                 string // a registered account name ("" = none): transactions may be sent under it
	namedPuts, nameMoves, namedHeldAtMove                int
}

const poolName = "c13poolname1"

// sender resolves the sender field of a transaction (an address or a registered name) to the account it stands for
// in the node's CURRENT state, with the name contract's own reader.
func (m *machine) sender(acc []byte) []byte {
	if len(acc) > types.NameLength {
		return acc
	}
	sdb := m.N.CS.SDB().OpenNewStateDB(m.N.CS.SDB().GetRoot())
	scs, err := statedb.GetNameAccountState(sdb)
	if err != nil {
		m.t.Fatalf("name contract: %v", err)
	}
	return name.GetAddress(scs, acc)
}

// mkNamed builds a transfer whose sender field is the registered name, signed with the key of user u.
func (m *machine) mkNamed(u int, nonce uint64, variant int, cid []byte) *types.Tx {
	tx := &types.Tx{Body: &types.TxBody{Nonce: nonce, Account: []byte(m.name), Recipient: vnode.KeyN((u + 1) % m.nusers).Addr,
		Amount: big.NewInt(int64(100 + variant)).Bytes(), Type: types.TxType_TRANSFER, ChainIdHash: cid}}
	vnode.SignTx(tx, vnode.KeyN(u))
	m.made[string(tx.GetHash())] = tx
	return tx
}

func (m *machine) userOf(addr []byte) int {
	for u := 0; u < m.nusers; u++ {
		if bytes.Equal(vnode.KeyN(u).Addr, addr) {
			return u
		}
	}
	return -1
}

func (m *machine) stateNonce(u int) uint64 {
	d, err := m.N.DumpAt(m.N.CS.SDB().GetRoot())
	if err != nil {
		m.t.Fatalf("dump: %v", err)
	}
	return d.Nonce(vnode.KeyN(u).Addr)
}

func (m *machine) mkTx(u int, nonce uint64, variant int, cid []byte) *types.Tx {
	s := &vnode.TxSpec{Kind: "transfer", From: u, Nonce: nonce, Type: types.TxType_TRANSFER, Recipient: vnode.KeyN((u + 1) % m.nusers).Addr,
		Amount: big.NewInt(int64(1 + variant))}
	if variant >= 10 {
		// an enterprise configuration call (private networks): admission reads the enterprise contract and the
		// height of the next block
		s.Type, s.Recipient, s.Amount = types.TxType_GOVERNANCE, []byte(types.AergoEnterprise), new(big.Int)
		s.Payload = vnode.CallInfo("appendAdmin", vnode.KeyN((u+variant)%m.nusers).Enc())
	} else if variant%2 == 1 {
		// a much larger transaction (payload), so that a size-limited fetch meets transactions that do not fit
		// in front of ones that would
		s.Type, s.Payload = types.TxType_NORMAL, bytes.Repeat([]byte{byte('a' + variant)}, 1200)
	}
	tx := s.Build(cid)
	m.made[string(tx.GetHash())] = tx
	return tx
}

// relay hands the notifications recorded by the hub to the pool, in order, as its actor would.
func (m *machine) relay() {
	for _, msg := range m.N.Hub.MemPool.Drain() {
		switch x := msg.(type) {
		case *message.MemPoolDel:
			if err := m.mp.VerifOnBlock(x.Block); err != nil {
				m.t.Fatalf("pool failed to process block %d: %v", x.Block.BlockNo(), err)
			}
		case *message.MemPoolPut:
			// a transaction of the abandoned branch that the chain service offers back: the pool must take it under
			// exactly the conditions of any other submission (nonce above the account's nonce in the NEW state, nonce
			// slot and hash free)
			want, why := m.expectAccept(x.Tx)
			err := m.mp.VerifAdmit(x.Tx)
			if err != nil && string(x.Tx.GetBody().GetRecipient()) == types.AergoName {
				continue // a name-table operation is also judged against the name table of the new state
			}
			if (err == nil) != want {
				m.t.Fatalf("a transaction offered back after a reorganisation (nonce %d) was accepted=%v (%v), expected accepted=%v (%s)\nhistory: %s",
					x.Tx.GetBody().GetNonce(), err == nil, err, want, why, strings.Join(m.hist, " | "))
			}
		}
	}
}

// expectAccept: the admission rule of the pool for an otherwise valid transaction.
func (m *machine) expectAccept(tx *types.Tx) (bool, string) {
	d, err := m.N.DumpAt(m.N.CS.SDB().GetRoot())
	if err != nil {
		m.t.Fatalf("dump: %v", err)
	}
	acc := m.sender(tx.GetBody().GetAccount())
	signedByHolder := true
	if len(tx.GetBody().GetAccount()) <= types.NameLength {
		// sent under the name: valid only while the name stands for the account whose key signed it
		signedByHolder = acc != nil && key.VerifyTxWithAddress(tx, acc) == nil
	}
	st := d.Nonce(acc)
	nonce := tx.GetBody().GetNonce()
	accs, _, _, _ := m.mp.VerifView()
	slotTaken, held := false, false
	for _, a := range accs {
		for i, n := range a.Nonces {
			if bytes.Equal(a.Account, acc) && n == nonce {
				slotTaken = true
			}
			if bytes.Equal(a.Hashes[i], tx.GetHash()) {
				held = true
			}
		}
	}
	// a transaction signed for another fork version of the chain id (a reorganisation across a hardfork height) is
	// not valid any more
	sameChain := bytes.Equal(tx.GetBody().GetChainIdHash(), m.mp.VerifAcceptChainIDHash())
	return sameChain && signedByHolder && nonce > st && !slotTaken && !held, fmt.Sprintf("state nonce %d, nonce slot taken=%v, same transaction held=%v, signed for the accepted chain id=%v, signed by the account the sender field stands for=%v", st, slotTaken, held, sameChain, signedByHolder)
}

func (m *machine) check(where string) {
	t := m.t
	accs, cache, length, orphan := m.mp.VerifView()
	held := map[string]bool{}
	listOf := map[string][]byte{} // hash -> account whose list holds it
	total, notReady := 0, 0
	d, err := m.N.DumpAt(m.N.CS.SDB().GetRoot())
	if err != nil {
		t.Fatalf("dump: %v", err)
	}
	fail := func(format string, a ...interface{}) {
		t.Fatalf("%s: %s\nhistory: %s", where, fmt.Sprintf(format, a...), strings.Join(m.hist, " | "))
	}
	expectReady := map[string][]uint64{}
	for _, a := range accs {
		st := d.Nonce(a.Account)
		prev := uint64(0)
		run := 0
		for i, n := range a.Nonces {
			if i > 0 && n <= prev {
				fail("account %x holds nonces %v: not strictly ascending (two transactions with the same account and nonce, or disorder)", a.Account[:4], a.Nonces)
			}
			prev = n
			if n <= st {
				fail("account %x (state nonce %d) still holds a transaction with nonce %d", a.Account[:4], st, n)
			}
			if run == i && n == st+uint64(i)+1 {
				run++
			}
			h := string(a.Hashes[i])
			if held[h] {
				fail("transaction %x is held twice", a.Hashes[i][:6])
			}
			held[h] = true
			listOf[h] = a.Account
			if tx := m.made[h]; tx != nil && len(tx.GetBody().GetAccount()) <= types.NameLength {
				if now := m.sender(tx.GetBody().GetAccount()); !bytes.Equal(now, a.Account) {
					fail("account %x (u%d) holds, at nonce %d, a transaction sent under the name %q, which stands for account %x (u%d) in the current state: it is not a transaction of either account any more",
						a.Account[:4], m.userOf(a.Account), n, tx.GetBody().GetAccount(), now[:4], m.userOf(now))
				}
			}
		}
		if a.Ready != run {
			fail("account %x (state nonce %d) holds nonces %v with a ready prefix of %d, but the gap-free run starting at state+1 has length %d", a.Account[:4], st, a.Nonces, a.Ready, run)
		}
		total += len(a.Nonces)
		notReady += len(a.Nonces) - a.Ready
		for i := 0; i < run; i++ {
			expectReady[string(a.Account)] = append(expectReady[string(a.Account)], a.Nonces[i])
		}
	}
	if length != total || orphan != notReady {
		fail("pool reports %d transactions / %d orphans but holds %d / %d", length, orphan, total, notReady)
	}
	if l, o := m.mp.Size(); l != total || o != notReady {
		fail("Size() = (%d,%d), pool holds (%d,%d)", l, o, total, notReady)
	}
	if len(cache) != len(held) {
		fail("hash index has %d entries, lists hold %d transactions", len(cache), len(held))
	}
	for _, k := range cache {
		if !held[string(k)] {
			fail("hash index knows %x, which no account list holds", k[:6])
		}
	}
	for h := range m.made {
		if got := m.mp.VerifExist([]byte(h)) != nil; got != held[h] {
			fail("exist(%x) = %v but held = %v", []byte(h)[:6], got, held[h])
		}
	}
	// what a producer is offered
	txs, err := m.mp.VerifGet(1 << 30)
	if err != nil {
		fail("get: %v", err)
	}
	got := map[string][]uint64{}
	for _, tx := range txs {
		acc := string(listOf[string(tx.GetHash())])
		if acc == "" {
			fail("producer is offered transaction %x (nonce %d), which no account list holds", tx.GetHash()[:6], tx.GetBody().GetNonce())
		}
		got[acc] = append(got[acc], tx.GetBody().GetNonce())
	}
	for acc, ns := range got {
		st := d.Nonce([]byte(acc))
		for i, n := range ns {
			if n != st+uint64(i)+1 {
				fail("producer is offered nonces %v for account %x whose state nonce is %d", ns, []byte(acc)[:4], st)
			}
		}
		if len(ns) != len(expectReady[acc]) {
			fail("producer is offered %d transactions of account %x, the gap-free run has %d", len(ns), []byte(acc)[:4], len(expectReady[acc]))
		}
	}
	for acc, ns := range expectReady {
		if len(got[acc]) != len(ns) {
			fail("account %x has a ready run %v that the producer is not offered (%v)", []byte(acc)[:4], ns, got[acc])
		}
	}
	// a producer with a small block-size budget: whatever it is offered is, per account, still a gap-free run from
	// state+1 (a prefix of the full offer), and fits the budget
	lim := rapid.SampledFrom([]int{0, 150, 300, 700, 1500, 3000, 8000}).Draw(t, "fetchLimit")
	part, err := m.mp.VerifGet(uint32(lim))
	if err != nil {
		fail("get(%d): %v", lim, err)
	}
	pgot := map[string][]uint64{}
	psize := 0
	for _, tx := range part {
		acc := string(listOf[string(tx.GetHash())])
		pgot[acc] = append(pgot[acc], tx.GetBody().GetNonce())
		psize += proto.Size(tx.GetTx())
	}
	if psize > lim {
		fail("a fetch limited to %d bytes returned %d bytes", lim, psize)
	}
	for acc, ns := range pgot {
		st := d.Nonce([]byte(acc))
		for i, n := range ns {
			if n != st+uint64(i)+1 {
				fail("a fetch limited to %d bytes offers nonces %v for account %x whose state nonce is %d (full offer %v)", lim, ns, []byte(acc)[:4], st, got[acc])
			}
		}
	}
	unc := m.mp.VerifUnconfirmed()
	for _, a := range accs {
		u, ok := unc[types.EncodeAddress(a.Account)]
		if !ok || u[0] != a.Ready || u[1] != len(a.Nonces)-a.Ready {
			fail("unconfirmed report for %x is %v, lists hold ready=%d rest=%d", a.Account[:4], u, a.Ready, len(a.Nonces)-a.Ready)
		}
	}
}

func TestC13Pool(t *testing.T) {
	rec := ev.New("C13", "pool")
	defer rec.Flush()
	rapid.Check(t, func(t *rapid.T) {
		nusers := rapid.IntRange(2, 4).Draw(t, "nusers")
		opts := vnode.WorldOpts{Consensus: rapid.SampledFrom([]string{"dpos", "sbp"}).Draw(t, "consensus"), Public: rapid.Bool().Draw(t, "public"), NUsers: nusers, NBPs: 1,
			Hardfork: vnode.DrawHardfork(t, 6), Magic: "verif.c13"}
		N, err := vnode.Open(vnode.NewSpec(opts), "")
		if err != nil {
			t.Fatal(err)
		}
		defer N.Remove()
		N.SwitchTo()
		m := &machine{t: t, N: N, nusers: nusers, made: map[string]*types.Tx{}}
		m.mp = mempool.VerifNew(N.CS.VerifCfg(), N.CS, N.Best())
		// eviction is configured as with EnableFadeout and the default 12 h period (it only ever runs in that mode)
		mempool.VerifSetEvictPeriod(12 * time.Hour)
		N.Hub.MemPool.Drain()
		heldModel := func() map[string]bool {
			accs, _, _, _ := m.mp.VerifView()
			out := map[string]bool{}
			for _, a := range accs {
				for _, h := range a.Hashes {
					out[string(h)] = true
				}
			}
			return out
		}
		actions := []string{"put", "put", "put", "put", "put", "remove", "block-from-pool", "block-outside", "reorg", "failed-reorg", "reput", "evict"}
		if rapid.IntRange(0, 2).Draw(t, "named") == 0 {
			// user 0 registers an account name in the first block: transactions may be sent under the name (signed by the
			// account the name stands for), and the name may be handed to another account by a later block
			st := m.stateNonce(0)
			reg := (&vnode.TxSpec{Kind: "name-create", From: 0, Nonce: st + 1, Type: types.TxType_GOVERNANCE, Recipient: []byte(types.AergoName),
				Amount: new(big.Int).Set(vnode.Aergo), Payload: vnode.CallInfo("v1createName", poolName)}).Build(N.ChainIDHashFor(N.Best()))
			m.made[string(reg.GetHash())] = reg
			p, err := N.Produce(N.Best(), N.Best().GetHeader().GetTimestamp()+1e9, []*types.Tx{reg}, nil)
			if err != nil {
				t.Fatalf("produce: %v", err)
			}
			if err := N.AddOwn(p); err != nil {
				t.Fatalf("connect: %v", err)
			}
			m.relay()
			m.name = poolName
			if got := m.sender([]byte(poolName)); !bytes.Equal(got, vnode.KeyN(0).Addr) {
				t.Fatalf("harness: the name was not registered (%x)", got)
			}
			actions = append(actions, "put-named", "put-named", "name-move")
		}
		steps := rapid.IntRange(3, 25).Draw(t, "steps")
		for s := 0; s < steps; s++ {
			best := N.Best()
			action := rapid.SampledFrom(actions).Draw(t, "action")
			switch action {
			case "put", "put-named":
				u := rapid.IntRange(0, nusers-1).Draw(t, "user")
				acct := vnode.KeyN(u).Addr // the account the transaction belongs to
				if action == "put-named" {
					acct = m.sender([]byte(m.name))
					if m.userOf(acct) < 0 {
						// a reorganisation went back behind the registration: nothing can be sent under the name
						tx := m.mkNamed(u, 1+uint64(rapid.IntRange(0, 6).Draw(t, "nonceOff")), 0, m.mp.VerifAcceptChainIDHash())
						if err := m.mp.VerifAdmit(tx); err == nil {
							t.Fatalf("a transaction sent under an unregistered name was admitted\nhistory: %s", strings.Join(m.hist, " | "))
						}
						m.hist = append(m.hist, "put-named(unregistered)=false")
						break
					}
				}
				st := m.stateNonce(m.userOf(acct))
				nonce := st + uint64(rapid.IntRange(0, 6).Draw(t, "nonceOff"))
				variant := rapid.IntRange(0, 1).Draw(t, "variant")
				var tx *types.Tx
				signerOK := true
				if action == "put-named" {
					// signed by the drawn user: accepted only if that is the account the name stands for
					tx = m.mkNamed(u, nonce, variant, m.mp.VerifAcceptChainIDHash())
					signerOK = bytes.Equal(acct, vnode.KeyN(u).Addr)
				} else {
					tx = m.mkTx(u, nonce, variant, m.mp.VerifAcceptChainIDHash())
				}
				before := heldModel()
				accs, _, _, _ := m.mp.VerifView()
				slotTaken, wasGap := false, false
				for _, a := range accs {
					if bytes.Equal(a.Account, acct) {
						for i, n := range a.Nonces {
							if n == nonce {
								slotTaken = true
							}
							if i >= a.Ready && n > nonce {
								wasGap = true
							}
						}
					}
				}
				err := m.mp.VerifAdmit(tx)
				want := signerOK && nonce > st && !slotTaken && !before[string(tx.GetHash())]
				m.hist = append(m.hist, fmt.Sprintf("%s(u%d,n%d,v%d)=%v", action, u, nonce, variant, err == nil))
				if (err == nil) != want {
					t.Fatalf("submission (%s) of nonce %d signed by u%d for the account of u%d (state nonce %d, nonce already held=%v, same tx held=%v) was accepted=%v (%v), expected accepted=%v\nhistory: %s",
						action, nonce, u, m.userOf(acct), st, slotTaken, before[string(tx.GetHash())], err == nil, err, want, strings.Join(m.hist, " | "))
				}
				if err == nil && action == "put-named" {
					m.namedPuts++
				}
				if err == nil && wasGap {
					m.gapFills++
				}
			case "reput":
				// resubmit a transaction built earlier (duplicate, or one that was executed / removed meanwhile)
				if len(m.made) == 0 {
					continue
				}
				var hs []string
				for h := range m.made {
					hs = append(hs, h)
				}
				sort.Strings(hs)
				tx := m.made[rapid.SampledFrom(hs).Draw(t, "old")]
				err := m.mp.VerifAdmit(tx)
				m.hist = append(m.hist, fmt.Sprintf("reput(n%d)=%v", tx.GetBody().GetNonce(), err == nil))
			case "evict":
				// some accounts have been idle for longer than the eviction period; the periodic eviction runs. The run
				// gives up after a few milliseconds, so an idle account may survive it, but it is taken or left as a whole
				accs, _, _, _ := m.mp.VerifView()
				if len(accs) == 0 {
					continue
				}
				var aged []string
				agedAcc := map[string]bool{}
				before := heldModel()
				for _, a := range accs {
					if rapid.Bool().Draw(t, "idle") {
						m.mp.VerifAge(a.Account)
						aged = append(aged, fmt.Sprintf("%x:%v/%d", a.Account[:2], a.Nonces, a.Ready))
						agedAcc[string(a.Account)] = true
						if a.Ready < len(a.Nonces) {
							m.evictedWithGap++
						}
					}
				}
				// an account made idle at an earlier step whose list has not changed since (the run at that step gave up
				// before reaching it) is still idle
				for _, a := range accs {
					if !agedAcc[string(a.Account)] && m.mp.VerifIsIdle(a.Account) {
						agedAcc[string(a.Account)] = true
						aged = append(aged, fmt.Sprintf("%x:%v/%d(still idle)", a.Account[:2], a.Nonces, a.Ready))
					}
				}
				m.mp.VerifEvict()
				got := heldModel()
				for _, a := range accs {
					left := 0
					for _, h := range a.Hashes {
						if got[string(h)] {
							left++
						}
					}
					if !agedAcc[string(a.Account)] && left != len(a.Hashes) {
						t.Fatalf("eviction of idle accounts %v dropped %d transactions of account %x, which was not idle\nhistory: %s", aged, len(a.Hashes)-left, a.Account[:2], strings.Join(m.hist, " | "))
					}
					if agedAcc[string(a.Account)] && left != 0 && left != len(a.Hashes) {
						t.Fatalf("eviction of idle account %x (%v, ready %d) removed only %d of its %d transactions from the lists\nhistory: %s", a.Account[:2], a.Nonces, a.Ready, len(a.Hashes)-left, len(a.Hashes), strings.Join(m.hist, " | "))
					}
				}
				if len(got) > len(before) {
					t.Fatalf("eviction added transactions")
				}
				m.hist = append(m.hist, fmt.Sprintf("evict(%s)", strings.Join(aged, ",")))
			case "remove":
				h := heldModel()
				if len(h) == 0 {
					continue
				}
				var hs []string
				for k := range h {
					hs = append(hs, k)
				}
				sort.Strings(hs)
				tx := m.made[rapid.SampledFrom(hs).Draw(t, "victim")]
				accs, _, _, _ := m.mp.VerifView()
				for _, a := range accs {
					for i, hh := range a.Hashes {
						if bytes.Equal(hh, tx.GetHash()) && i < a.Ready-1 {
							m.removedInRun++
						}
					}
				}
				if err := m.mp.VerifRemoveTx(tx); err != nil {
					t.Fatalf("removing a held transaction failed: %v", err)
				}
				m.hist = append(m.hist, fmt.Sprintf("remove(n%d)", tx.GetBody().GetNonce()))
			case "block-from-pool", "block-outside", "name-move":
				var cands []*types.Tx
				if action == "name-move" && m.userOf(m.sender([]byte(m.name))) < 0 {
					action = "block-outside" // the registration was reorganised away
				}
				if action == "name-move" {
					// a block (made elsewhere) in which the holder hands the name to another account
					holder := m.userOf(m.sender([]byte(m.name)))
					to := rapid.IntRange(0, nusers-1).Draw(t, "newHolder")
					mv := (&vnode.TxSpec{Kind: "name-update", From: holder, Nonce: m.stateNonce(holder) + 1, Type: types.TxType_GOVERNANCE, Recipient: []byte(types.AergoName),
						Amount: new(big.Int).Set(vnode.Aergo), Payload: vnode.CallInfo("v1updateName", m.name, vnode.KeyN(to).Enc())}).Build(N.ChainIDHashFor(best))
					m.made[string(mv.GetHash())] = mv
					cands = append(cands, mv)
					for h := range heldModel() {
						if tx := m.made[h]; tx != nil && len(tx.GetBody().GetAccount()) <= types.NameLength && to != holder {
							m.namedHeldAtMove++
							break
						}
					}
					m.nameMoves++
				} else if action == "block-from-pool" {
					txs, _ := m.mp.VerifGet(1 << 30)
					k := rapid.IntRange(0, len(txs)).Draw(t, "take")
					// keep per-account order: take a prefix of each account's run
					cnt := map[string]int{}
					for _, tx := range txs {
						if len(cands) >= k {
							break
						}
						cnt[string(tx.GetBody().GetAccount())]++
						cands = append(cands, tx.GetTx())
					}
				} else {
					u := rapid.IntRange(0, nusers-1).Draw(t, "user")
					st := m.stateNonce(u)
					n := rapid.IntRange(1, 3).Draw(t, "nout")
					cid := N.ChainIDHashFor(best)
					for i := 0; i < n; i++ {
						cands = append(cands, m.mkTx(u, st+uint64(i)+1, 2+rapid.IntRange(0, 1).Draw(t, "ovar"), cid))
					}
				}
				N.SwitchTo()
				p, err := N.Produce(best, best.GetHeader().GetTimestamp()+1e9, cands, nil)
				if err != nil {
					t.Fatalf("produce: %v", err)
				}
				if err := N.AddOwn(p); err != nil {
					t.Fatalf("connect: %v", err)
				}
				m.relay()
				if len(p.Included) > 0 {
					m.stateChanges++
				}
				m.hist = append(m.hist, fmt.Sprintf("%s(%d txs)", action, len(p.Included)))
			case "reorg", "failed-reorg":
				if best.BlockNo() < 1 {
					continue
				}
				depth := rapid.IntRange(1, int(min64(best.BlockNo(), 3))).Draw(t, "depth")
				anc := best
				for i := 0; i < depth; i++ {
					anc, err = N.CS.GetBlock(anc.GetHeader().GetPrevBlockHash())
					if err != nil {
						t.Fatal(err)
					}
				}
				// a side branch one block longer than the main chain from the ancestor
				prev := anc
				var side []*types.Block
				for i := 0; i <= depth; i++ {
					var cands []*types.Tx
					if rapid.Bool().Draw(t, "sideTx") {
						u := rapid.IntRange(0, nusers-1).Draw(t, "user")
						d, err := N.DumpAt(prev.GetHeader().GetBlocksRootHash())
						if err != nil {
							t.Fatal(err)
						}
						cands = append(cands, m.mkTx(u, d.Nonce(vnode.KeyN(u).Addr)+1, 4+rapid.IntRange(0, 1).Draw(t, "svar"), N.ChainIDHashFor(prev)))
					}
					p, err := N.ProduceCommitted(prev, prev.GetHeader().GetTimestamp()+int64(5+s)*1e9, cands, nil)
					if err != nil {
						t.Fatalf("produce side block: %v", err)
					}
					side = append(side, p.Block)
					prev = p.Block
				}
				N.SwitchTo()
				if action == "failed-reorg" {
					// the last block of the longer branch is invalid: the roll-forward executes the blocks before it
					// (the pool is told about each), fails, and the node stays on its main chain
					side[len(side)-1] = vnode.WithStateRootFlipped(side[len(side)-1])
					for i, b := range side {
						err := N.AddPeer(b)
						if i < len(side)-1 && err != nil {
							t.Fatalf("side block refused: %v", err)
						}
					}
					if !bytes.Equal(N.Best().BlockHash(), best.BlockHash()) {
						t.Fatalf("harness: the best block changed although the longer branch is invalid")
					}
					m.relay()
					m.failedReorgs++
					m.hist = append(m.hist, fmt.Sprintf("failed-reorg(depth %d)", depth))
					break
				}
				for _, b := range side {
					if err := N.AddPeer(b); err != nil {
						t.Fatalf("side block refused: %v", err)
					}
				}
				if !bytes.Equal(N.Best().BlockHash(), side[len(side)-1].BlockHash()) {
					t.Fatalf("harness: node did not reorganise to the longer side branch")
				}
				m.relay()
				m.reorgs++
				m.stateChanges++
				m.hist = append(m.hist, fmt.Sprintf("reorg(depth %d)", depth))
			}
			m.check(fmt.Sprintf("after step %d (%s)", s, m.hist[len(m.hist)-1]))
		}
		classes := []string{}
		if m.reorgs > 0 {
			classes = append(classes, "reorg")
		}
		if m.gapFills > 0 {
			classes = append(classes, "gap-fill")
		}
		if m.removedInRun > 0 {
			classes = append(classes, "removal-inside-ready-run")
		}
		if m.evictedWithGap > 0 {
			classes = append(classes, "eviction-of-account-with-gap")
		}
		if m.failedReorgs > 0 {
			classes = append(classes, "failed-reorg")
		}
		if m.stateChanges > 0 {
			classes = append(classes, "state-change")
		}
		if m.namedPuts > 0 {
			classes = append(classes, "sent-under-name")
		}
		if m.namedHeldAtMove > 0 {
			classes = append(classes, "name-moved-while-held")
		}
		nontrivial := m.gapFills > 0 && m.stateChanges > 0 && (m.removedInRun > 0 || m.reorgs > 0)
		rec.Case(strings.Join(classes, ","), fmt.Sprintf("%+v|%s", opts, strings.Join(m.hist, "|")), nontrivial, func() interface{} {
			return map[string]interface{}{"consensus": opts.Consensus, "public": opts.Public, "history": m.hist}
		})
	})
}

func min64(a uint64, b uint64) uint64 {
	if a < b {
		return a
	}
	return b
}

// TestC13Concurrent: submissions, removals, producer fetches, existence queries and statistics run
// concurrently from several goroutines against one pool (the operations the pool's actor and its
// verifier workers really interleave); the bookkeeping invariants are checked at quiescence.
// With the race detector (thorough tier) any unsynchronised access is reported by the runtime.
func TestC13Concurrent(t *testing.T) {
	rec := ev.New("C13", "concurrent")
	defer rec.Flush()
	rapid.Check(t, func(t *rapid.T) {
		nusers := 3
		opts := vnode.WorldOpts{Consensus: "sbp", Public: false, NUsers: nusers, NBPs: 1, Magic: "verif.c13c"}
		N, err := vnode.Open(vnode.NewSpec(opts), "")
		if err != nil {
			t.Fatal(err)
		}
		defer N.Remove()
		N.SwitchTo()
		m := &machine{t: t, N: N, nusers: nusers, made: map[string]*types.Tx{}}
		m.mp = mempool.VerifNew(N.CS.VerifCfg(), N.CS, N.Best())
		cid := m.mp.VerifAcceptChainIDHash()
		workers := rapid.IntRange(2, 6).Draw(t, "workers")
		type job struct {
			kind string
			tx   *types.Tx
		}
		plans := make([][]job, workers)
		var all []*types.Tx
		for w := 0; w < workers; w++ {
			n := rapid.IntRange(3, 12).Draw(t, "njobs")
			for i := 0; i < n; i++ {
				switch k := rapid.SampledFrom([]string{"put", "put", "put", "get", "exist", "size", "remove"}).Draw(t, "job"); k {
				case "put":
					u := rapid.IntRange(0, nusers-1).Draw(t, "user")
					tx := m.mkTx(u, uint64(rapid.IntRange(1, 8).Draw(t, "nonce")), rapid.SampledFrom([]int{0, 1, 0, 1, 10, 11}).Draw(t, "variant"), cid)
					all = append(all, tx)
					plans[w] = append(plans[w], job{kind: k, tx: tx})
				case "remove", "exist":
					if len(all) == 0 {
						continue
					}
					plans[w] = append(plans[w], job{kind: k, tx: rapid.SampledFrom(all).Draw(t, "target")})
				default:
					plans[w] = append(plans[w], job{kind: k})
				}
			}
		}
		// one more goroutine plays the block producer: it fetches from the pool, produces and connects a block on the
		// node and hands the pool the block notification, while the others keep submitting
		nblocks := rapid.IntRange(0, 3).Draw(t, "blocks")
		takes := make([]int, nblocks)
		for i := range takes {
			takes[i] = rapid.IntRange(0, 100).Draw(t, "takePct")
		}
		prodErr := make(chan error, 1)
		produced := 0
		producer := func() {
			var perr error
			defer func() { prodErr <- perr }()
			for i := 0; i < nblocks; i++ {
				txs, err := m.mp.VerifGet(1 << 30)
				if err != nil {
					perr = fmt.Errorf("get: %v", err)
					return
				}
				k := len(txs) * takes[i] / 100
				var cands []*types.Tx
				for _, tx := range txs[:k] {
					cands = append(cands, tx.GetTx())
				}
				best := N.Best()
				p, err := N.Produce(best, best.GetHeader().GetTimestamp()+1e9, cands, nil)
				if err != nil {
					perr = fmt.Errorf("produce: %v", err)
					return
				}
				if err := N.AddOwn(p); err != nil {
					perr = fmt.Errorf("connect: %v", err)
					return
				}
				produced += len(p.Included)
				for _, msg := range N.Hub.MemPool.Drain() {
					if x, ok := msg.(*message.MemPoolDel); ok {
						if err := m.mp.VerifOnBlock(x.Block); err != nil {
							perr = fmt.Errorf("pool failed to process block %d: %v", x.Block.BlockNo(), err)
							return
						}
					}
				}
			}
		}
		done := make(chan struct{})
		start := make(chan struct{})
		go func() {
			<-start
			producer()
		}()
		for w := 0; w < workers; w++ {
			go func(js []job) {
				<-start
				for _, j := range js {
					switch j.kind {
					case "put":
						m.mp.VerifAdmit(j.tx)
					case "remove":
						m.mp.VerifRemoveTx(j.tx)
					case "exist":
						m.mp.VerifExist(j.tx.GetHash())
					case "get":
						m.mp.VerifGet(1 << 30)
					case "size":
						m.mp.Size()
					}
				}
				done <- struct{}{}
			}(plans[w])
		}
		close(start)
		// pool operations are short; if they have not all returned after two minutes they never will (a goroutine
		// blocked for good inside the pool): nothing can be established about such a pool
		watchdog := time.After(120 * time.Second)
		for w := 0; w < workers; w++ {
			select {
			case <-done:
			case <-watchdog:
				t.Fatalf("VERIF-DEADLOCK: %d of %d submitting goroutines have not returned from the pool after 120 s (%d submissions, %d blocks planned)", workers-w, workers, len(all), nblocks)
			}
		}
		select {
		case err := <-prodErr:
			if err != nil {
				t.Fatalf("block producer: %v", err)
			}
		case <-watchdog:
			t.Fatalf("VERIF-DEADLOCK: the block-producer goroutine has not returned after 120 s")
		}
		m.hist = []string{fmt.Sprintf("%d workers, %d submissions, %d blocks with %d transactions", workers, len(all), nblocks, produced)}
		m.check("at quiescence after concurrent operations")
		cls := fmt.Sprintf("workers=%d", workers)
		if produced > 0 {
			cls += ",blocks-with-pool-txs"
		}
		rec.Case(cls, fmt.Sprintf("%d|%d|%v|%v", workers, len(all), plans, takes), workers >= 3 && len(all) >= 6, func() interface{} {
			return map[string]interface{}{"workers": workers, "submissions": len(all), "blocks": nblocks, "transactions in blocks": produced}
		})
	})
}
