// Package ev is the evidence recorder shared by all property checks.
//
// It is injected into the aergo module as the virtual package
// github.com/aergoio/aergo/v2/verifx/ev by the build overlay (see tools/overlay.py),
// so in-package tests of any aergo package can import it.
//
// Every property function reports each generated case once through Rec.Case: the
// class it belongs to (for the distribution histogram), a canonical description of the
// case (hashed to count DISTINCT cases), whether it is non-trivial by the property's
// stated rule, and a lazily rendered sample. At the end of the test Rec.Flush writes a
// partial evidence file that the driver (./check) merges over all shards.
package ev

import (
	"crypto/sha256"
	"encoding/hex"
	"encoding/json"
	"fmt"
	"os"
	"path/filepath"
	"sort"
	"strconv"
	"strings"
	"sync"
	"time"
)

const maxFingerprints = 400000
const maxSamples = 6

type Rec struct {
	mu         sync.Mutex
	Property   string
	Unit       string
	start      time.Time
	evals      int64
	nontriv    int64
	classes    map[string]int64
	fps        map[[8]byte]struct{}
	fpsFull    bool
	samples    []interface{}
	notes      map[string]interface{}
	known      map[string]int64 // known-finding id -> number of cases excluded
	knownWhat  map[string]string
	exhaustive bool
}

func New(property, unit string) *Rec {
	return &Rec{Property: property, Unit: unit, start: time.Now(), classes: map[string]int64{},
		fps: map[[8]byte]struct{}{}, notes: map[string]interface{}{}, known: map[string]int64{}, knownWhat: map[string]string{}}
}

// Case records one generated case. class may hold several comma separated labels.
func (r *Rec) Case(class string, canonical string, nontrivial bool, sample func() interface{}) {
	r.mu.Lock()
	defer r.mu.Unlock()
	r.evals++
	for _, c := range strings.Split(class, ",") {
		c = strings.TrimSpace(c)
		if c != "" {
			r.classes[c]++
		}
	}
	if !nontrivial {
		return
	}
	r.nontriv++
	h := sha256.Sum256([]byte(canonical))
	var k [8]byte
	copy(k[:], h[:8])
	_, seen := r.fps[k]
	if !seen {
		if len(r.fps) < maxFingerprints {
			r.fps[k] = struct{}{}
		} else {
			r.fpsFull = true
		}
		if sample != nil && len(r.samples) < maxSamples {
			r.samples = append(r.samples, sample())
		}
	}
}

// Label adds to the class histogram without counting a case.
func (r *Rec) Label(class string) {
	r.mu.Lock()
	r.classes[class]++
	r.mu.Unlock()
}

func (r *Rec) LabelN(class string, n int64) {
	r.mu.Lock()
	r.classes[class] += n
	r.mu.Unlock()
}

func (r *Rec) Note(key string, v interface{}) {
	r.mu.Lock()
	r.notes[key] = v
	r.mu.Unlock()
}

func (r *Rec) SetExhaustive(b bool) { r.mu.Lock(); r.exhaustive = b; r.mu.Unlock() }

func (r *Rec) Sample(v interface{}) {
	r.mu.Lock()
	if len(r.samples) < maxSamples {
		r.samples = append(r.samples, v)
	}
	r.mu.Unlock()
}

type partial struct {
	Property     string                 `json:"property"`
	Unit         string                 `json:"unit"`
	Shard        string                 `json:"shard"`
	Evaluations  int64                  `json:"evaluations"`
	Nontrivial   int64                  `json:"nontrivial"`
	Fingerprints []string               `json:"fingerprints"`
	FpsTruncated bool                   `json:"fps_truncated"`
	Classes      map[string]int64       `json:"classes"`
	Samples      []interface{}          `json:"samples"`
	Notes        map[string]interface{} `json:"notes"`
	Known        map[string]int64       `json:"known"`
	KnownWhat    map[string]string      `json:"known_what"`
	Exhaustive   bool                   `json:"exhaustive"`
	WallS        float64                `json:"wall_s"`
}

// Flush writes the partial evidence file. Safe to call via defer / t.Cleanup.
func (r *Rec) Flush() {
	r.PrintKnown()
	r.mu.Lock()
	defer r.mu.Unlock()
	dir := os.Getenv("VERIF_EV_DIR")
	if dir == "" {
		return
	}
	shard := os.Getenv("VERIF_SHARD")
	if shard == "" {
		shard = "0"
	}
	p := partial{Property: r.Property, Unit: r.Unit, Shard: shard, Evaluations: r.evals, Nontrivial: r.nontriv,
		Classes: r.classes, Samples: r.samples, Notes: r.notes, Known: r.known, KnownWhat: r.knownWhat,
		FpsTruncated: r.fpsFull, Exhaustive: r.exhaustive, WallS: time.Since(r.start).Seconds()}
	for k := range r.fps {
		p.Fingerprints = append(p.Fingerprints, hex.EncodeToString(k[:]))
	}
	sort.Strings(p.Fingerprints)
	b, err := json.Marshal(p)
	if err != nil {
		fmt.Fprintf(os.Stderr, "ev: marshal: %v\n", err)
		// retry without samples (a sample may hold an unmarshalable value)
		p.Samples = []interface{}{fmt.Sprintf("%v", r.samples)}
		b, _ = json.Marshal(p)
	}
	name := fmt.Sprintf("%s.%s.%s.json", r.Property, sanitize(r.Unit), shard)
	_ = os.MkdirAll(dir, 0o755)
	_ = os.WriteFile(filepath.Join(dir, name), b, 0o644)
}

func sanitize(s string) string {
	return strings.Map(func(c rune) rune {
		if c >= 'a' && c <= 'z' || c >= 'A' && c <= 'Z' || c >= '0' && c <= '9' || c == '_' || c == '-' {
			return c
		}
		return '_'
	}, s)
}

// ---- tiers, sizes -------------------------------------------------------------------

func Tier() string {
	if t := os.Getenv("VERIF_TIER"); t != "" {
		return t
	}
	return "quick"
}

func Thorough() bool { return Tier() == "thorough" }

// IntEnv reads an integer knob (set by the driver per tier), with a default.
func IntEnv(name string, def int) int {
	if v := os.Getenv(name); v != "" {
		if n, err := strconv.Atoi(v); err == nil {
			return n
		}
	}
	return def
}

// ---- known findings -----------------------------------------------------------------

type finding struct {
	Property string `json:"property"`
	ID       string `json:"id"`
	Status   string `json:"status"`
	What     string `json:"what"`
}

var (
	knownOnce sync.Once
	knownSet  map[string]finding
)

func loadKnown() {
	knownSet = map[string]finding{}
	path := os.Getenv("VERIF_KNOWN")
	if path == "" {
		return
	}
	b, err := os.ReadFile(path)
	if err != nil {
		return
	}
	var doc struct {
		Findings []finding `json:"findings"`
	}
	if json.Unmarshal(b, &doc) != nil {
		return
	}
	for _, f := range doc.Findings {
		if f.Status == "known" {
			knownSet[f.Property+"/"+f.ID] = f
		}
	}
}

// IsKnown reports whether finding id of this property is listed with status "known" in
// known_findings.json. The predicate that recognises the finding lives in the check; the
// file only switches it on. A "fixed" entry (or a missing one) suppresses nothing.
func (r *Rec) IsKnown(id string) bool {
	knownOnce.Do(loadKnown)
	_, ok := knownSet[r.Property+"/"+id]
	return ok
}

// Excluded counts one generated case whose violation matches the listed known finding id.
func (r *Rec) Excluded(id string) {
	knownOnce.Do(loadKnown)
	r.mu.Lock()
	r.known[id]++
	if f, ok := knownSet[r.Property+"/"+id]; ok {
		r.knownWhat[id] = f.What
	}
	r.mu.Unlock()
}

// PrintKnown prints the KNOWN-FINDING lines (once per listed finding that was hit).
func (r *Rec) PrintKnown() {
	r.mu.Lock()
	defer r.mu.Unlock()
	ids := make([]string, 0, len(r.known))
	for id := range r.known {
		ids = append(ids, id)
	}
	sort.Strings(ids)
	for _, id := range ids {
		fmt.Printf("KNOWN-FINDING: property=%s id=%s cases=%d %s\n", r.Property, id, r.known[id], r.knownWhat[id])
	}
}

// ---- custom replay files --------------------------------------------------------------

// WriteReplay stores a JSON replay case for a non-rapid (enumerated) failure and prints
// the marker line the driver looks for.
func (r *Rec) WriteReplay(name string, v interface{}) string {
	dir := os.Getenv("VERIF_REPLAY_OUT")
	if dir == "" {
		dir = os.TempDir()
	}
	_ = os.MkdirAll(dir, 0o755)
	b, _ := json.MarshalIndent(v, "", " ")
	p := filepath.Join(dir, fmt.Sprintf("%s-%s.json", r.Property, sanitize(name)))
	_ = os.WriteFile(p, b, 0o644)
	fmt.Printf("VERIF-REPLAY: %s\n", p)
	return p
}
