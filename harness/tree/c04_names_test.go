//go:build verif

package tree

// C04 (block path, transactions sent under a name) — "a transaction changes state only if it carries a valid signature
// of its sender account's key (or of the registered owner of the sender name)". The signature check of the block
// path (chain SignVerifier.verifyTx, what BlockValidator runs for every transaction of a received block) has a short
// cut: a transaction the local pool knows is taken as verified. Whether a transaction sent under a NAME is
// authorised depends on who owns the name in the state the block is validated on, which need not be the state the
// pool admitted it on (another branch during a reorganisation). Generated: a chain on which a name is registered and
// possibly handed on; transactions under an address or under the name, signed by the right or a wrong key; the pool
// answers "known" or "unknown". Oracle: the verdict is "verified" only if the signature is valid for the sender
// address, or for the account that owns the name in the node's current state - whatever the pool says.

import (
	"bytes"
	"fmt"
	"math/big"
	"testing"
	"time"

	"github.com/aergoio/aergo/v2/contract/name"
	"github.com/aergoio/aergo/v2/state/statedb"
	"github.com/aergoio/aergo/v2/types"
	"github.com/aergoio/aergo/v2/types/message"
	"github.com/aergoio/aergo/v2/verifx/ev"
	"github.com/aergoio/aergo/v2/verifx/vnode"
	"pgregory.net/rapid"
)

type c04Pool struct{ known bool }

func (p c04Pool) TellTo(string, interface{})    {}
func (p c04Pool) RequestTo(string, interface{}) {}
func (p c04Pool) RequestToFutureResult(target string, msg interface{}, timeout time.Duration, tip string) (interface{}, error) {
	if m, ok := msg.(*message.MemPoolExist); ok && p.known {
		return &message.MemPoolExistRsp{Tx: &types.Tx{Hash: m.Hash}}, nil
	}
	return &message.MemPoolExistRsp{}, nil
}

func TestC04NameSenderOnBlockPath(t *testing.T) {
	rec := ev.New("C04", "name-sender-block-path")
	defer rec.Flush()
	rapid.Check(t, func(t *rapid.T) {
		opts := vnode.WorldOpts{Consensus: rapid.SampledFrom([]string{"dpos", "sbp"}).Draw(t, "consensus"), Public: rapid.Bool().Draw(t, "public"), NUsers: 3, NBPs: 1,
			Hardfork: vnode.DrawHardfork(t, 4), Magic: "verif.c04n"}
		N, err := vnode.Open(vnode.NewSpec(opts), "")
		if err != nil {
			t.Fatal(err)
		}
		defer N.Remove()
		N.SwitchTo()
		const nm = "c04blockname"
		nonce := map[int]uint64{}
		step := func(from int, payload []byte) {
			prev := N.Best()
			nonce[from]++
			tx := (&vnode.TxSpec{Kind: "name", From: from, Nonce: nonce[from], Type: types.TxType_GOVERNANCE, Recipient: []byte(types.AergoName),
				Amount: new(big.Int).Set(vnode.Aergo), Payload: payload}).Build(N.ChainIDHashFor(prev))
			p, err := N.Produce(prev, prev.GetHeader().GetTimestamp()+1e9, []*types.Tx{tx}, nil)
			if err != nil || len(p.Included) != 1 {
				t.Fatalf("harness: name transaction not included (%v)", err)
			}
			if err := N.AddOwn(p); err != nil {
				t.Fatal(err)
			}
		}
		creator := rapid.IntRange(0, 2).Draw(t, "creator")
		step(creator, vnode.CallInfo("v1createName", nm))
		holder := creator
		for i := rapid.IntRange(0, 2).Draw(t, "handovers"); i > 0; i-- {
			to := rapid.IntRange(0, 2).Draw(t, "newHolder")
			step(holder, vnode.CallInfo("v1updateName", nm, vnode.KeyN(to).Enc()))
			holder = to
		}
		scs, err := statedb.GetNameAccountState(N.CS.SDB().OpenNewStateDB(N.CS.SDB().GetRoot()))
		if err != nil {
			t.Fatal(err)
		}
		if owner := name.GetOwner(scs, []byte(nm)); !bytes.Equal(owner, vnode.KeyN(holder).Addr) {
			t.Fatalf("harness: the name is owned by %x, expected user %d", owner, holder)
		}
		cid := N.ChainIDHashFor(N.Best())
		ntx := rapid.IntRange(1, 6).Draw(t, "ntx")
		classes := map[string]bool{}
		for i := 0; i < ntx; i++ {
			signer := rapid.IntRange(0, 2).Draw(t, "signer")
			underName := rapid.Bool().Draw(t, "underName")
			claimed := rapid.IntRange(0, 2).Draw(t, "claimedSender")
			tx := &types.Tx{Body: &types.TxBody{Nonce: uint64(rapid.IntRange(1, 9).Draw(t, "nonce")), Account: vnode.KeyN(claimed).Addr, Recipient: vnode.KeyN(2).Addr,
				Amount: big.NewInt(int64(rapid.IntRange(0, 1000).Draw(t, "amount"))).Bytes(), Type: types.TxType_TRANSFER, ChainIdHash: cid}}
			if underName {
				tx.Body.Account = []byte(nm)
			}
			vnode.SignTx(tx, vnode.KeyN(signer))
			known := rapid.Bool().Draw(t, "poolKnowsIt")
			authorised := (!underName && signer == claimed) || (underName && signer == holder)
			hit, err := N.CS.VerifSignVerifyTx(c04Pool{known: known}, tx)
			verified := err == nil
			cls := fmt.Sprintf("underName=%v,authorised=%v,poolKnows=%v", underName, authorised, known)
			classes[cls] = true
			if verified && !authorised && underName {
				t.Fatalf("the block path takes a transaction sent under the name %q for verified (pool short cut taken=%v) although it is signed by user %d and the name belongs to user %d in the node's state (the pool %s)",
					nm, hit, signer, holder, map[bool]string{true: "says it knows the transaction", false: "does not know it"}[known])
			}
			if !verified && authorised {
				t.Fatalf("an authorised transaction (%s) is refused by the block path: %v", cls, err)
			}
			if verified && !authorised && !underName && !known {
				t.Fatalf("a transaction of user %d signed by user %d is taken for verified without the pool knowing it", claimed, signer)
			}
		}
		var cl []string
		for c := range classes {
			cl = append(cl, c)
		}
		rec.Case(fmt.Sprint(len(cl)), fmt.Sprintf("%+v|%d|%d|%v", opts, creator, holder, cl), len(cl) >= 3, func() interface{} { return cl })
	})
}
