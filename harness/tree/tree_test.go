//go:build verif

package tree

// Block-tree checks. One generated case = a block tree (built by the real producer path, with
// optional single-fault invalid blocks) + an arrival schedule delivered to a real node through
// the validator path. The same driver serves four properties; each test asserts only the
// oracles of its own property:
//
//   C05  chain database coherent after every arrival
//   C07  fork choice: longest fully stored valid branch wins, exact state, abandoned txs re-pooled
//   C03  (block part) a rejected block leaves no residue
//   C04  (block part) nothing unauthorised/replayed is ever executed on the main chain

import (
	"bytes"
	"crypto/sha256"
	"encoding/binary"
	"fmt"
	"sort"
	"strings"
	"testing"

	"github.com/aergoio/aergo/v2/contract/system"
	"github.com/aergoio/aergo/v2/state/statedb"
	"github.com/aergoio/aergo/v2/types"
	"github.com/aergoio/aergo/v2/verifx/ev"
	"github.com/aergoio/aergo/v2/verifx/vnode"
	"github.com/btcsuite/btcd/btcec/v2"
	"github.com/btcsuite/btcd/btcec/v2/ecdsa"
	"pgregory.net/rapid"
)

type cfg struct {
	compete    bool
	rec        *ev.Rec
	prop       string
	invalidPct int
	forged     bool
	minBlocks  int
	maxBlocks  int
	maxTx      int
}

type result struct {
	classes    map[string]bool
	nontrivial bool
	canon      string
	sample     map[string]interface{}
}

// independent re-implementation of the signed digest (field list of the property statement)
func signedDigest(b *types.TxBody) []byte {
	h := sha256.New()
	var u8 [8]byte
	binary.LittleEndian.PutUint64(u8[:], b.Nonce)
	h.Write(u8[:])
	h.Write(b.Account)
	h.Write(b.Recipient)
	h.Write(b.Amount)
	h.Write(b.Payload)
	binary.LittleEndian.PutUint64(u8[:], b.GasLimit)
	h.Write(u8[:])
	h.Write(b.GasPrice)
	var u4 [4]byte
	binary.LittleEndian.PutUint32(u4[:], uint32(b.Type))
	h.Write(u4[:])
	h.Write(b.ChainIdHash)
	return h.Sum(nil)
}

func independentlyAuthorised(tx *types.Tx, chainID []byte) error {
	b := tx.GetBody()
	if len(b.Account) != 33 {
		return nil // name senders are not generated here
	}
	want := sha256.Sum256(chainID)
	if !bytes.Equal(b.ChainIdHash, want[:]) {
		return fmt.Errorf("chain id hash %x is not the hash of the block's chain id", b.ChainIdHash[:4])
	}
	sig, err := ecdsa.ParseSignature(b.Sign)
	if err != nil {
		return fmt.Errorf("unparsable signature: %v", err)
	}
	pk, err := btcec.ParsePubKey(b.Account)
	if err != nil {
		return fmt.Errorf("account is not a public key: %v", err)
	}
	if !sig.Verify(signedDigest(b), pk) {
		return fmt.Errorf("signature does not verify under the sender's key")
	}
	return nil
}

func storeSnapshot(n *vnode.Node) map[string]string {
	out := map[string]string{}
	st := n.CS.VerifChainStore()
	for it := st.Iterator(nil, nil); it.Valid(); it.Next() {
		out[string(it.Key())] = string(it.Value())
	}
	return out
}

func diffSnap(a, b map[string]string) string {
	var d []string
	for k, v := range a {
		if w, ok := b[k]; !ok {
			d = append(d, fmt.Sprintf("deleted key %x", short([]byte(k))))
		} else if w != v {
			d = append(d, fmt.Sprintf("changed key %x", short([]byte(k))))
		}
	}
	for k := range b {
		if _, ok := a[k]; !ok {
			d = append(d, fmt.Sprintf("new key %x (%d bytes)", short([]byte(k)), len(b[k])))
		}
	}
	sort.Strings(d)
	return strings.Join(d, "; ")
}

func short(b []byte) []byte {
	if len(b) > 8 {
		return b[:8]
	}
	return b
}

func runCase(t *rapid.T, c cfg) *result {
	opts := vnode.WorldOpts{
		Consensus: rapid.SampledFrom([]string{"dpos", "dpos", "sbp"}).Draw(t, "consensus"),
		Public:    rapid.Bool().Draw(t, "public"),
		NUsers:    rapid.IntRange(2, 4).Draw(t, "nusers"),
		NBPs:      rapid.IntRange(1, 3).Draw(t, "nbps"),
		Hardfork:  vnode.DrawHardfork(t, 6),
		Magic:     "verif.tree",
	}
	spec := vnode.NewSpec(opts)
	G, err := vnode.Open(spec, "")
	if err != nil {
		t.Fatalf("open generator: %v", err)
	}
	defer G.Remove()
	w0 := &vnode.World{NUsers: opts.NUsers, NBPs: opts.NBPs, Public: opts.Public, DPoS: opts.Consensus == "dpos"}
	tr := vnode.GenTree(t, G, w0, vnode.TreeOpts{MinBlocks: c.minBlocks, MaxBlocks: c.maxBlocks, MaxTx: c.maxTx, InvalidPct: c.invalidPct, Forged: c.forged, Compete: c.compete && rapid.IntRange(0, 3).Draw(t, "competeMode") > 0})
	sched := vnode.DrawSchedule(t, tr)
	nsched := len(sched)
	for i := range tr.Blocks { // final pass: everything once more, parents first
		sched = append(sched, i)
	}

	D, err := vnode.Open(spec, "")
	if err != nil {
		t.Fatalf("open node: %v", err)
	}
	defer D.Remove()
	D.SwitchTo()
	genesisHash := D.Best().BlockHash()
	if !bytes.Equal(genesisHash, tr.Genesis.BlockHash()) {
		t.Fatalf("harness: generator and node disagree on genesis")
	}

	res := &result{classes: map[string]bool{}}
	var desc []string
	for _, b := range tr.Blocks {
		desc = append(desc, b.Desc)
		if b.Kind != "ok" {
			res.classes["invalid:"+b.Kind] = true
		}
	}
	var steps []string
	history := func() string {
		return fmt.Sprintf("tree:\n  %s\nschedule: %v (final pass from position %d)\nsteps so far:\n  %s", strings.Join(desc, "\n  "), sched, nsched, strings.Join(steps, "\n  "))
	}
	var known []*types.Block
	delivered := map[int]bool{}
	reorgs, orphanResolutions, rejected, failedReorgs := 0, 0, 0, 0
	maxRollback := 0
	rejectedAtPos2 := false
	forgedFirst := false
	knownHit := false
	D.PoolPuts()

	// stored(b): b and all its ancestors are retrievable from the node and valid
	storedValidHeight := func() (uint64, *vnode.TBlock) {
		var best *vnode.TBlock
		var h uint64
		for _, b := range tr.Blocks {
			if !b.ChainValid {
				continue
			}
			ok := true
			for cur := b; cur != nil; {
				if _, err := D.CS.GetBlock(cur.Block.BlockHash()); err != nil {
					ok = false
					break
				}
				if cur.Parent < 0 {
					break
				}
				cur = tr.Blocks[cur.Parent]
			}
			if ok && b.Height() > h {
				h, best = b.Height(), b
			}
		}
		return h, best
	}

	if c.prop == "C07" && rapid.IntRange(0, 2).Draw(t, "orphanDecoy") == 0 {
		// before anything else arrives: a bogus child of the tip of the longest valid branch (right parent hash, a
		// number beyond parent+1). It waits in the orphan pool; the fault of such a child is not its parent's
		var tip *vnode.TBlock
		for _, b := range tr.Blocks {
			if b.ChainValid && (tip == nil || b.Height() > tip.Height()) {
				tip = b
			}
		}
		if tip != nil {
			decoy := vnode.DecoyChild(tip.Block, uint64(rapid.IntRange(1, 5).Draw(t, "decoyGap")))
			err := D.AddPeer(decoy)
			steps = append(steps, fmt.Sprintf("decoy: bogus child (number %d) of block %s delivered first: %v", decoy.BlockNo(), tip.Desc, err))
			res.classes["orphan-decoy"] = true
		}
	}
	for step, bi := range sched {
		tb := tr.Blocks[bi]
		preBest := D.Best()
		preRoot := append([]byte{}, D.CS.SDB().GetRoot()...)
		var preSnap map[string]string
		var preDump string
		directChild := bytes.Equal(tb.Block.GetHeader().GetPrevBlockHash(), preBest.BlockHash())
		if c.prop == "C03" {
			preSnap = storeSnapshot(D)
			d, err := D.DumpAt(preRoot)
			if err != nil {
				t.Fatalf("state before step %d not readable: %v", step, err)
			}
			preDump = d.String()
		}
		wasOrphans := D.CS.VerifOrphanCount()
		first := !delivered[bi]
		if first {
			known = append(known, tb.Block)
		}
		delivered[bi] = true
		addErr := D.AddPeer(tb.Block)
		postBest := D.Best()
		where := fmt.Sprintf("step %d: delivery of block %s (error returned: %v)", step, tb.Desc, addErr)
		steps = append(steps, fmt.Sprintf("%d: #%d -> err=%v best=%d/%x", step, bi, addErr, postBest.BlockNo(), short(postBest.BlockHash())))

		if D.CS.VerifOrphanCount() < wasOrphans {
			orphanResolutions++
		}
		if addErr != nil {
			rejected++
		}
		changed := !bytes.Equal(preBest.BlockHash(), postBest.BlockHash())
		isReorg := changed && !isAncestor(D, preBest, postBest)
		if isReorg {
			reorgs++
		}
		if tb.Kind != "ok" && strings.HasPrefix(tb.Kind, "forged") && first {
			if tw := tb.Twin; tw != nil {
				if _, err := D.CS.GetBlock(tw.BlockHash()); err != nil {
					forgedFirst = true
				}
			}
		}

		// ---- C05: coherence after every arrival -------------------------------------------
		if c.prop == "C05" {
			if err := D.CheckChainInvariants(genesisHash, known); err != nil {
				t.Fatalf("%s\nchain database incoherent: %v\n%s", where, err, history())
			}
		}

		// ---- main chain only holds valid blocks (C03, C04, C07) ----------------------------
		ptb := tr.ByHash[string(postBest.BlockHash())]
		if postBest.BlockNo() > 0 && (ptb == nil || !ptb.ChainValid) {
			if c.prop == "C07" || c.prop == "C03" || (c.prop == "C04" && ptb != nil && strings.HasPrefix(ptb.Kind, "forged")) {
				k := "unknown"
				if ptb != nil {
					k = ptb.Desc
				}
				t.Fatalf("%s\nthe best block is now %d/%x = %s, which is invalid or has an invalid ancestor\n%s", where, postBest.BlockNo(), short(postBest.BlockHash()), k, history())
			}
		}

		// ---- C07: fork choice ----------------------------------------------------------------
		if c.prop == "C07" {
			if changed && postBest.BlockNo() <= preBest.BlockNo() {
				t.Fatalf("%s\nbest block moved from height %d to height %d: a branch that is not strictly longer displaced the main chain\n%s", where, preBest.BlockNo(), postBest.BlockNo(), history())
			}
			h, hb := storedValidHeight()
			if postBest.BlockNo() < h && offeredOnlyWithInvalidExtension(tr, hb, delivered) && c.rec.IsKnown("valid-prefix-of-invalid-branch") {
				c.rec.Excluded("valid-prefix-of-invalid-branch")
				res.classes["known:valid-prefix-of-invalid-branch"] = true
				knownHit = true
			} else if postBest.BlockNo() < h {
				t.Fatalf("%s\nthe node stores the complete valid branch ending in %s (height %d) but its best block is %d/%x\n%s", where, hb.Desc, h, postBest.BlockNo(), short(postBest.BlockHash()), history())
			}
			if !bytes.Equal(D.CS.SDB().GetRoot(), postBest.GetHeader().GetBlocksRootHash()) {
				t.Fatalf("%s\nworld state root %x is not the state root %x of the best block %d\n%s", where, short(D.CS.SDB().GetRoot()), short(postBest.GetHeader().GetBlocksRootHash()), postBest.BlockNo(), history())
			}
			puts := D.PoolPuts()
			if isReorg {
				oldOnly, newOnly, depth := branchDiff(D, preBest, postBest)
				if depth > maxRollback {
					maxRollback = depth
				}
				want := map[string]bool{}
				for _, b := range oldOnly {
					for _, tx := range b.GetBody().GetTxs() {
						want[string(tx.GetHash())] = true
					}
				}
				for _, b := range newOnly {
					for _, tx := range b.GetBody().GetTxs() {
						delete(want, string(tx.GetHash()))
					}
				}
				if !sameSet(want, puts) {
					t.Fatalf("%s\nreorganisation (%d blocks rolled back, %d applied): transactions offered back to the pool %s, expected the abandoned-only transactions %s\n%s",
						where, len(oldOnly), len(newOnly), setStr(puts), setStr(want), history())
				}
				if len(want) > 0 {
					res.classes["reorg-returned-txs"] = true
				}
			} else if len(puts) > 0 {
				t.Fatalf("%s\nno reorganisation happened but %d transactions were handed back to the pool\n%s", where, len(puts), history())
			}
			if addErr != nil && !changed {
				if st := D.CC.Last; st != nil && st.ID() != postBest.ID() {
					t.Fatalf("%s\nthe branch was refused but the consensus status was left at block %d/%s instead of the best block %d/%s\n%s", where, st.BlockNo(), st.ID(), postBest.BlockNo(), postBest.ID(), history())
				}
			}
		} else {
			D.PoolPuts()
		}

		// ---- C03: a rejected block leaves no residue -------------------------------------------
		if c.prop == "C03" && addErr != nil && !changed {
			if !directChild && tb.Block.BlockNo() > preBest.BlockNo() {
				failedReorgs++
				if p := invalidDepth(tr, tb); p >= 2 {
					rejectedAtPos2 = true
				}
			}
			if !bytes.Equal(D.CS.SDB().GetRoot(), preRoot) {
				t.Fatalf("%s\nthe block was rejected and the best block is unchanged (%d), but the world state root moved from %x to %x\n%s", where, preBest.BlockNo(), short(preRoot), short(D.CS.SDB().GetRoot()), history())
			}
			d, err := D.DumpAt(D.CS.SDB().GetRoot())
			if err != nil || d.String() != preDump {
				t.Fatalf("%s\nthe block was rejected but the world state differs from before (err %v)\n%s", where, err, history())
			}
			if st := D.CC.Last; st != nil && st.ID() != preBest.ID() {
				t.Fatalf("%s\nthe block was rejected but the consensus status is left at block %d instead of the best block %d\n%s", where, st.BlockNo(), preBest.BlockNo(), history())
			}
			if err := D.CheckChainInvariants(genesisHash, known); err != nil {
				t.Fatalf("%s\nafter the rejection the chain database is incoherent: %v\n%s", where, err, history())
			}
			// a block whose number does not continue its parent's is taken for a side-branch block and its raw record
			// is kept like that of any not yet validated side block: for it only state, indexes and best block are compared
			if directChild && tb.Kind != "ok" && !strings.HasPrefix(tb.Kind, "number-") {
				if diff := diffSnap(preSnap, storeSnapshot(D)); diff != "" {
					t.Fatalf("%s\nthe invalid block was rejected but the chain database changed: %s\n%s", where, diff, history())
				}
			}
		}
	}

	// ---- end of history -------------------------------------------------------------------
	main, err := D.MainChain()
	if err != nil {
		t.Fatalf("final main chain: %v\n%s", err, history())
	}
	best := main[len(main)-1]
	var wantH uint64
	for _, b := range tr.Blocks {
		if b.ChainValid && b.Height() > wantH {
			wantH = b.Height()
		}
	}
	if c.prop == "C07" && !knownHit {
		if best.BlockNo() != wantH {
			t.Fatalf("after delivering every block (parents first) the best block has height %d, but the longest valid branch has height %d\n%s", best.BlockNo(), wantH, history())
		}
	}
	if c.prop == "C07" {
		// differential: a node that only ever sees the winning branch, in order
		memGas, memName, memStake, memBp := system.GetGasPrice().String(), system.GetNamePrice().String(), system.GetStakingMinimum().String(), system.GetBpCount()
		dDump, err := D.DumpAt(D.CS.SDB().GetRoot())
		if err != nil {
			t.Fatalf("final state unreadable: %v", err)
		}
		R, err := vnode.Open(spec, "")
		if err != nil {
			t.Fatalf("open reference node: %v", err)
		}
		defer R.Remove()
		R.SwitchTo()
		for _, b := range main[1:] {
			if err := R.AddPeer(b); err != nil {
				t.Fatalf("reference node refuses block %d of the node's main chain: %v\n%s", b.BlockNo(), err, history())
			}
		}
		rDump, err := R.DumpAt(R.CS.SDB().GetRoot())
		if err != nil {
			t.Fatalf("reference state unreadable: %v", err)
		}
		if !bytes.Equal(R.CS.SDB().GetRoot(), D.CS.SDB().GetRoot()) || rDump.String() != dDump.String() {
			t.Fatalf("state after the history differs from the state of a node that only executed the winning branch\nnode:\n%sreference:\n%s%s", dDump, rDump, history())
		}
		rGas, rName, rStake, rBp := system.GetGasPrice().String(), system.GetNamePrice().String(), system.GetStakingMinimum().String(), system.GetBpCount()
		if memGas != rGas || memName != rName || memStake != rStake || memBp != rBp {
			t.Fatalf("active system parameters after the history (gas price %s, name price %s, staking minimum %s, bp count %d) differ from those of a node that only executed the winning branch (%s, %s, %s, %d)\n%s",
				memGas, memName, memStake, memBp, rGas, rName, rStake, rBp, history())
		}
		_ = statedb.GetSystemAccountState
	}
	if c.prop == "C04" {
		nonces := map[string]uint64{}
		seen := map[string]int{}
		ntx := 0
		for _, b := range main[1:] {
			for i, tx := range b.GetBody().GetTxs() {
				ntx++
				if at, dup := seen[string(tx.GetHash())]; dup {
					t.Fatalf("transaction %x executed twice on the main chain (blocks %d and %d)\n%s", short(tx.GetHash()), at, b.BlockNo(), history())
				}
				seen[string(tx.GetHash())] = int(b.BlockNo())
				acc := string(tx.GetBody().GetAccount())
				if tx.GetBody().GetNonce() != nonces[acc]+1 {
					t.Fatalf("block %d position %d: account %x executed nonce %d after nonce %d\n%s", b.BlockNo(), i, short([]byte(acc)), tx.GetBody().GetNonce(), nonces[acc], history())
				}
				nonces[acc]++
				if !bytes.Equal(tx.CalculateTxHash(), tx.GetHash()) {
					t.Fatalf("block %d position %d: transaction id is not the digest of the transaction\n%s", b.BlockNo(), i, history())
				}
				if err := independentlyAuthorised(tx, b.GetHeader().GetChainID()); err != nil {
					t.Fatalf("block %d position %d on the main chain holds a transaction that is not authorised: %v\n%s", b.BlockNo(), i, err, history())
				}
			}
		}
		// the executed nonces must also be what the state records
		d, err := D.DumpAt(D.CS.SDB().GetRoot())
		if err != nil {
			t.Fatalf("final state unreadable: %v", err)
		}
		for acc, n := range nonces {
			if got := d.Nonce([]byte(acc)); got != n {
				t.Fatalf("account %x executed %d transactions on the main chain but its state nonce is %d\n%s", short([]byte(acc)), n, got, history())
			}
		}
		if ntx >= 2 {
			res.classes["main-chain-txs>=2"] = true
		}
	}

	// ---- classification ------------------------------------------------------------------------
	if reorgs > 0 {
		res.classes["reorg"] = true
	}
	if maxRollback >= 2 {
		res.classes["reorg-rollback>=2"] = true
	}
	if orphanResolutions > 0 {
		res.classes["orphan-resolved"] = true
	}
	if rejected > 0 {
		res.classes["rejected-delivery"] = true
	}
	if failedReorgs > 0 {
		res.classes["failed-reorg"] = true
	}
	if forgedFirst {
		res.classes["forged-before-genuine"] = true
	}
	switch c.prop {
	case "C05":
		res.nontrivial = reorgs > 0 || orphanResolutions > 0
	case "C07":
		res.nontrivial = maxRollback >= 2 || (reorgs > 0 && rejected > 0)
	case "C03":
		res.nontrivial = rejected > 0 && (rejectedAtPos2 || len(main) > 2)
	case "C04":
		forged := false
		for _, b := range tr.Blocks {
			if strings.HasPrefix(b.Kind, "forged") || b.Kind == "extra-tx-nonce" || strings.Contains(b.Desc, "borrowed") || strings.Contains(b.Desc, "+nonce") {
				forged = true
			}
		}
		res.nontrivial = forged
	}
	res.canon = fmt.Sprintf("%+v|%s|%v", opts, strings.Join(desc, "|"), sched)
	res.sample = map[string]interface{}{"consensus": opts.Consensus, "public": opts.Public, "hardfork": fmt.Sprintf("%+v", opts.Hardfork),
		"tree": desc, "schedule": sched, "final_best_height": best.BlockNo(), "reorgs": reorgs, "rejected_deliveries": rejected}
	return res
}

// offeredOnlyWithInvalidExtension recognises the known finding "valid-prefix-of-invalid-branch":
// the valid branch ending in hb has a delivered descendant that is invalid, i.e. fork choice saw
// it as the prefix of a longer branch whose roll-forward failed.
func offeredOnlyWithInvalidExtension(tr *vnode.Tree, hb *vnode.TBlock, delivered map[int]bool) bool {
	for _, b := range tr.Blocks {
		if b.Kind == "ok" || !delivered[b.Idx] {
			continue
		}
		for cur := b; cur.Parent >= 0; {
			cur = tr.Blocks[cur.Parent]
			if cur == hb {
				return true
			}
		}
	}
	return false
}

// invalidDepth: position (1-based) of the first invalid block on the path from the fork with
// the main line down to tb; 0 if none.
func invalidDepth(tr *vnode.Tree, tb *vnode.TBlock) int {
	var path []*vnode.TBlock
	for cur := tb; cur != nil; {
		path = append([]*vnode.TBlock{cur}, path...)
		if cur.Parent < 0 {
			break
		}
		cur = tr.Blocks[cur.Parent]
	}
	// position counted within the trailing run of blocks that are not ChainValid-prefix
	for i, b := range path {
		if b.Kind != "ok" {
			// count from the first block of the path that is on this branch only: approximate
			// by the distance from the start of the path
			return i + 1
		}
	}
	return 0
}

func isAncestor(n *vnode.Node, anc, desc *types.Block) bool {
	cur := desc
	for cur.BlockNo() > anc.BlockNo() {
		p, err := n.CS.GetBlock(cur.GetHeader().GetPrevBlockHash())
		if err != nil {
			return false
		}
		cur = p
	}
	return bytes.Equal(cur.BlockHash(), anc.BlockHash())
}

// branchDiff returns the blocks only on old's chain, only on new's chain, and the rollback depth.
func branchDiff(n *vnode.Node, old, nw *types.Block) (oldOnly, newOnly []*types.Block, depth int) {
	get := func(h []byte) *types.Block {
		b, err := n.CS.GetBlock(h)
		if err != nil {
			return nil
		}
		return b
	}
	a, b := old, nw
	for b != nil && b.BlockNo() > a.BlockNo() {
		newOnly = append(newOnly, b)
		b = get(b.GetHeader().GetPrevBlockHash())
	}
	for a != nil && b != nil && !bytes.Equal(a.BlockHash(), b.BlockHash()) {
		oldOnly = append(oldOnly, a)
		newOnly = append(newOnly, b)
		a = get(a.GetHeader().GetPrevBlockHash())
		b = get(b.GetHeader().GetPrevBlockHash())
	}
	return oldOnly, newOnly, len(oldOnly)
}

func sameSet(a, b map[string]bool) bool {
	if len(a) != len(b) {
		return false
	}
	for k := range a {
		if !b[k] {
			return false
		}
	}
	return true
}

func setStr(a map[string]bool) string {
	var s []string
	for k := range a {
		s = append(s, fmt.Sprintf("%x", short([]byte(k))))
	}
	sort.Strings(s)
	return "{" + strings.Join(s, ",") + "}"
}

func record(rec *ev.Rec, r *result) {
	var cl []string
	for c := range r.classes {
		cl = append(cl, c)
	}
	sort.Strings(cl)
	rec.Case(strings.Join(cl, ","), r.canon, r.nontrivial, func() interface{} { return r.sample })
}

func TestC05Arrivals(t *testing.T) {
	rec := ev.New("C05", "arrivals")
	defer rec.Flush()
	rapid.Check(t, func(t *rapid.T) {
		record(rec, runCase(t, cfg{rec: rec, compete: true, prop: "C05", invalidPct: 12, forged: false, minBlocks: 2, maxBlocks: 9, maxTx: 4}))
	})
}

func TestC07ForkChoice(t *testing.T) {
	rec := ev.New("C07", "forkchoice")
	defer rec.Flush()
	rapid.Check(t, func(t *rapid.T) {
		record(rec, runCase(t, cfg{rec: rec, compete: true, prop: "C07", invalidPct: 8, forged: false, minBlocks: 4, maxBlocks: 12, maxTx: 3}))
	})
}

func TestC03InvalidBlocks(t *testing.T) {
	rec := ev.New("C03", "invalidblocks")
	defer rec.Flush()
	rapid.Check(t, func(t *rapid.T) {
		record(rec, runCase(t, cfg{rec: rec, prop: "C03", invalidPct: 30, forged: true, minBlocks: 2, maxBlocks: 8, maxTx: 4}))
	})
}

func TestC04ForgedBlocks(t *testing.T) {
	rec := ev.New("C04", "forgedblocks")
	defer rec.Flush()
	rapid.Check(t, func(t *rapid.T) {
		record(rec, runCase(t, cfg{rec: rec, prop: "C04", invalidPct: 30, forged: true, minBlocks: 2, maxBlocks: 7, maxTx: 5}))
	})
}
