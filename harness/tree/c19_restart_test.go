//go:build verif

package tree

// C19 (stable across restarts). A node produces blocks under a hardfork configuration H0 and is stopped. Then it is
// started again and again with configurations drawn (with repetition) from a small pool: H0 itself, variants that
// only move forks still in the future, and variants that move or add a fork at or below the best block. Each start
// runs the real start-up path up to the hardfork compatibility check on the real stores.
// Oracle: a start is accepted only with a configuration that gives every existing height the version it had when the
// block was made; a refused start leaves no trace (H0 is accepted afterwards, and a configuration refused once is
// refused again); H0 itself is always accepted; after everything the node opens with H0 and its chain is intact.

import (
	"bytes"
	"fmt"
	"strings"
	"testing"

	"github.com/aergoio/aergo/v2/chain"
	"github.com/aergoio/aergo/v2/config"
	"github.com/aergoio/aergo/v2/verifx/ev"
	"github.com/aergoio/aergo/v2/verifx/vnode"
	"pgregory.net/rapid"
)

func TestC19HardforkRestarts(t *testing.T) {
	rec := ev.New("C19", "restarts")
	defer rec.Flush()
	rapid.Check(t, func(t *rapid.T) {
		drawCfg := func(label string, maxH int) config.HardforkConfig {
			hs := make([]uint64, 4)
			prev := uint64(0)
			for i := range hs {
				prev += uint64(rapid.IntRange(0, maxH).Draw(t, fmt.Sprintf("%s%d", label, i)))
				hs[i] = prev
			}
			return config.HardforkConfig{V2: hs[0], V3: hs[1], V4: hs[2], V5: hs[3]}
		}
		h0 := drawCfg("h0-", 6)
		ascending := true
		if rapid.IntRange(0, 3).Draw(t, "unordered") == 0 {
			// a configuration whose heights are not in the order of the versions: whatever the very first start makes
			// of it (refuse it, or live with it), the chain made under it must be startable again
			hs := rapid.Permutation([]uint64{h0.V2, h0.V3, h0.V4, h0.V5}).Draw(t, "perm")
			h0 = config.HardforkConfig{V2: hs[0], V3: hs[1], V4: hs[2], V5: hs[3]}
			ascending = h0.V2 <= h0.V3 && h0.V3 <= h0.V4 && h0.V4 <= h0.V5
		}
		opts := vnode.WorldOpts{Consensus: "sbp", Public: false, NUsers: 1, NBPs: 1, Hardfork: h0, Magic: "verif.c19r"}
		spec := vnode.NewSpec(opts)
		var N *vnode.Node
		var err error
		func() {
			// a node that refuses its configuration ends its start with a panic ("check the hardfork compatibility")
			defer func() {
				if p := recover(); p != nil {
					err = fmt.Errorf("start refused: %v", p)
				}
			}()
			N, err = vnode.Open(spec, "")
		}()
		if err != nil {
			if !ascending {
				rec.Case("first-start-refused", fmt.Sprintf("%+v", h0), false, nil)
				return // refused at the first start: nothing was made under it
			}
			t.Fatal(err)
		}
		dir := N.Dir
		defer func() { N.Remove() }()
		N.SwitchTo()
		nblocks := rapid.IntRange(0, 14).Draw(t, "blocks")
		prev := N.Best()
		for i := 0; i < nblocks; i++ {
			p, err := N.Produce(prev, prev.GetHeader().GetTimestamp()+1e9, nil, nil)
			if err != nil {
				t.Fatalf("produce: %v", err)
			}
			if err := N.AddOwn(p); err != nil {
				t.Fatalf("connect: %v", err)
			}
			prev = p.Block
		}
		best := prev
		N.Close()
		sameHistory := func(c config.HardforkConfig) bool {
			for h := uint64(0); h <= best.BlockNo(); h++ {
				if c.Version(h) != h0.Version(h) {
					return false
				}
			}
			return true
		}
		pool := []config.HardforkConfig{h0}
		for i := 0; i < 3; i++ {
			c := drawCfg(fmt.Sprintf("alt%d-", i), 6)
			if rapid.Bool().Draw(t, "futureOnly") {
				// keep what lies at or below the best block, move the rest
				c = h0
				shift := uint64(rapid.IntRange(1, 5).Draw(t, "shift"))
				if c.V5 > best.BlockNo() {
					c.V5 += shift
				}
				if c.V4 > best.BlockNo() {
					c.V4 += shift
					if c.V5 < c.V4 {
						c.V5 = c.V4
					}
				}
			}
			pool = append(pool, c)
		}
		nstarts := rapid.IntRange(2, 7).Draw(t, "starts")
		var hist []string
		refused := map[config.HardforkConfig]bool{}
		rewrites, accepts := 0, 0
		for s := 0; s < nstarts; s++ {
			c := rapid.SampledFrom(pool).Draw(t, "cfg")
			s2 := *spec
			s2.Hardfork = c
			err := chain.VerifCheckHardforkAtStart(vnode.ConfigFor(&s2, dir))
			hist = append(hist, fmt.Sprintf("%+v=>%v", c, err == nil))
			where := fmt.Sprintf("blocks were made under %+v up to height %d; starts so far: %s", h0, best.BlockNo(), strings.Join(hist, " | "))
			if err == nil && !sameHistory(c) {
				t.Fatalf("a start with a configuration that gives an existing height another version was accepted\n%s", where)
			}
			if err != nil && c == h0 {
				t.Fatalf("a start with the configuration the chain was made under is refused: %v\n%s", err, where)
			}
			if err == nil && refused[c] {
				t.Fatalf("a configuration that was refused at an earlier start is accepted now, although nothing was added to the chain\n%s", where)
			}
			if err != nil {
				refused[c] = true
				if !sameHistory(c) {
					rewrites++
				}
			} else {
				accepts++
			}
		}
		// the chain is intact and opens under the original configuration
		R, err := vnode.Open(spec, dir)
		if err != nil {
			t.Fatalf("the node does not open with its original configuration after the starts %s: %v", strings.Join(hist, " | "), err)
		}
		N = R
		if !bytes.Equal(R.Best().BlockHash(), best.BlockHash()) {
			t.Fatalf("best block changed across the restarts")
		}
		rec.Case(fmt.Sprintf("refused-rewrites=%d", min(rewrites, 3)), fmt.Sprintf("%+v|%d|%s", h0, best.BlockNo(), strings.Join(hist, "|")), rewrites > 0 && accepts > 0, func() interface{} {
			return map[string]interface{}{"made under": fmt.Sprintf("%+v", h0), "height": best.BlockNo(), "starts": hist}
		})
	})
}
