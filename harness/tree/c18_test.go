//go:build verif

package tree

// C18 (c) — content-addressed blocks. Variants of a valid block whose identifier field is NOT the
// digest of their header (the identifier is kept from the genuine block, or taken from another
// valid block, while header or body are altered) are delivered to a real node before / after /
// between the genuine blocks. Oracle: whatever the node stores or indexes under an identifier
// hashes to that identifier, forged content never becomes part of the main chain, and the
// genuine block is accepted afterwards (forged deliveries do not change what the node accepts).

import (
	"bytes"
	"fmt"
	"strings"
	"testing"

	"github.com/aergoio/aergo/v2/types"
	"github.com/aergoio/aergo/v2/verifx/ev"
	"github.com/aergoio/aergo/v2/verifx/vnode"
	"pgregory.net/rapid"
)

func digestOf(b *types.Block) []byte {
	c := vnode.CloneBlock(b)
	c.Hash = nil
	return c.BlockHash()
}

func TestC18BlockIdentity(t *testing.T) {
	rec := ev.New("C18", "blockidentity")
	defer rec.Flush()
	rapid.Check(t, func(t *rapid.T) {
		opts := vnode.WorldOpts{Consensus: rapid.SampledFrom([]string{"dpos", "sbp"}).Draw(t, "consensus"), Public: rapid.Bool().Draw(t, "public"), NUsers: 3, NBPs: 1,
			Hardfork: vnode.DrawHardfork(t, 4), Magic: "verif.c18"}
		spec := vnode.NewSpec(opts)
		G, err := vnode.Open(spec, "")
		if err != nil {
			t.Fatal(err)
		}
		defer G.Remove()
		w0 := &vnode.World{NUsers: opts.NUsers, NBPs: opts.NBPs, Public: opts.Public, DPoS: opts.Consensus == "dpos"}
		tr := vnode.GenTree(t, G, w0, vnode.TreeOpts{MinBlocks: 2, MaxBlocks: 5, MaxTx: 3, Linear: true})
		D, err := vnode.Open(spec, "")
		if err != nil {
			t.Fatal(err)
		}
		defer D.Remove()
		D.SwitchTo()
		type item struct {
			b        *types.Block
			desc     string
			real     bool
			bodyOnly bool // genuine identifier and header, altered body
		}
		var sched []item
		var hist []string
		genuineByID := map[string]*types.Block{}
		for _, tb := range tr.Blocks {
			genuineByID[string(tb.Block.BlockHash())] = tb.Block
		}
		forgedFirst := false
		for i, tb := range tr.Blocks {
			genuine := tb.Block
			nforged := rapid.IntRange(0, 2).Draw(t, "nforged")
			var forged []item
			for k := 0; k < nforged; k++ {
				f := vnode.CloneBlock(genuine)
				kind := rapid.SampledFrom([]string{"stateroot", "timestamp", "drop-tx", "txroot", "prev", "confirms", "coinbase", "id-of-other", "no-header", "no-body", "body-only"}).Draw(t, "forgeKind")
				switch kind {
				case "body-only":
					// identifier and header genuine, only the body differs (one transaction less, or the last one twice)
					if len(f.Body.Txs) == 0 {
						f.Header.Timestamp++
					} else if rapid.Bool().Draw(t, "dupLast") {
						f.Body.Txs = append(f.Body.Txs, f.Body.Txs[len(f.Body.Txs)-1])
					} else {
						f.Body.Txs = f.Body.Txs[:len(f.Body.Txs)-1]
					}
				case "no-header":
					// a block message need not carry a header at all (the announced identifier is kept)
					f.Header = nil
				case "no-body":
					f.Body = nil
				case "stateroot":
					f.Header.BlocksRootHash = append([]byte{}, f.Header.BlocksRootHash...)
					f.Header.BlocksRootHash[0] ^= 1
				case "timestamp":
					f.Header.Timestamp++
				case "drop-tx":
					if len(f.Body.Txs) == 0 {
						f.Header.Timestamp++
					} else {
						f.Body.Txs = f.Body.Txs[:len(f.Body.Txs)-1]
					}
				case "txroot":
					f.Header.TxsRootHash = append([]byte{1}, f.Header.TxsRootHash...)
				case "prev":
					if i > 0 {
						f.Header.PrevBlockHash = tr.Genesis.BlockHash()
					} else {
						f.Header.Timestamp++
					}
				case "confirms":
					f.Header.Confirms += 3
				case "coinbase":
					f.Header.CoinbaseAccount = vnode.KeyN(2).Addr
				case "id-of-other":
					// genuine content of this block announced under the identifier of another valid block
					o := tr.Blocks[rapid.IntRange(0, len(tr.Blocks)-1).Draw(t, "other")]
					if o.Idx == i {
						f.Header.Timestamp++
					} else {
						f.Hash = append([]byte{}, o.Block.BlockHash()...)
					}
				}
				// the identifier field is whatever the sender announces: NOT recomputed
				bodyOnly := kind == "body-only" && len(genuine.Body.Txs) > 0
				if !bodyOnly && f.Header != nil && f.Body != nil && bytes.Equal(digestOf(f), f.Hash) {
					continue
				}
				forged = append(forged, item{b: f, desc: fmt.Sprintf("forged#%d(%s)", i, kind), bodyOnly: bodyOnly})
			}
			g := item{b: genuine, desc: fmt.Sprintf("genuine#%d", i), real: true}
			switch rapid.IntRange(0, 2).Draw(t, "order") {
			case 0:
				sched = append(sched, forged...)
				sched = append(sched, g)
				if len(forged) > 0 {
					forgedFirst = true
				}
			case 1:
				sched = append(sched, g)
				sched = append(sched, forged...)
			default:
				if len(forged) > 0 {
					sched = append(sched, forged[0], g)
					sched = append(sched, forged[1:]...)
					forgedFirst = true
				} else {
					sched = append(sched, g)
				}
			}
		}
		check := func(where string) {
			// everything retrievable under an identifier hashes to that identifier
			for _, it := range sched {
				id := it.b.Hash
				if blk, err := D.CS.GetBlock(id); err == nil {
					if !bytes.Equal(digestOf(blk), id) {
						t.Fatalf("%s: the node stores under identifier %x a block whose header digest is %x\nhistory: %s", where, id[:6], digestOf(blk)[:6], strings.Join(hist, " | "))
					}
					// ... and carries the body that header commits to: the transactions of the genuine block
					if g := genuineByID[string(id)]; g != nil {
						same := len(g.GetBody().GetTxs()) == len(blk.GetBody().GetTxs())
						for k := 0; same && k < len(g.GetBody().GetTxs()); k++ {
							same = bytes.Equal(g.GetBody().GetTxs()[k].GetHash(), blk.GetBody().GetTxs()[k].GetHash()) &&
								bytes.Equal(blk.GetBody().GetTxs()[k].GetHash(), blk.GetBody().GetTxs()[k].CalculateTxHash())
						}
						if !same {
							t.Fatalf("%s: the node stores under identifier %x (a genuine block with %d transactions) a body of %d transactions that is not that block's\nhistory: %s", where, id[:6], len(g.GetBody().GetTxs()), len(blk.GetBody().GetTxs()), strings.Join(hist, " | "))
						}
					}
				}
			}
			main, err := D.MainChain()
			if err != nil {
				t.Fatalf("%s: %v", where, err)
			}
			for _, b := range main {
				if !bytes.Equal(digestOf(b), b.BlockHash()) {
					t.Fatalf("%s: main chain block %d is stored under an identifier that is not its header digest\nhistory: %s", where, b.BlockNo(), strings.Join(hist, " | "))
				}
				h, err := D.CS.GetHashByNo(b.BlockNo())
				if err != nil || !bytes.Equal(h, digestOf(b)) {
					t.Fatalf("%s: height index of %d does not name the digest of the block's header", where, b.BlockNo())
				}
			}
		}
		bodyAlteredBefore := map[string]bool{}
		for _, it := range sched {
			err := D.AddPeer(it.b)
			if it.bodyOnly {
				bodyAlteredBefore[string(it.b.Hash)] = true
			}
			hist = append(hist, fmt.Sprintf("%s=%v", it.desc, err == nil))
			check("after " + it.desc)
			if it.real {
				if err != nil && bodyAlteredBefore[string(it.b.BlockHash())] && rec.IsKnown("altered-body-under-genuine-header") {
					// known finding: the refusal of the altered copy was remembered under the (genuine) header hash
					rec.Excluded("altered-body-under-genuine-header")
					return
				}
				if err != nil {
					t.Fatalf("the genuine block %s was refused (%v) after forged variants announcing its identifier\nhistory: %s", it.desc, err, strings.Join(hist, " | "))
				}
				if !bytes.Equal(D.Best().BlockHash(), it.b.BlockHash()) {
					t.Fatalf("the genuine block %s did not become the best block\nhistory: %s", it.desc, strings.Join(hist, " | "))
				}
			}
		}
		rec.Case(fmt.Sprintf("forgedFirst=%v", forgedFirst), fmt.Sprintf("%+v|%s", opts, strings.Join(hist, "|")), forgedFirst, func() interface{} { return hist })
	})
}
