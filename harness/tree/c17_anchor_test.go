//go:build verif

package tree

// C17 (anchor exchange on real chain services). The syncer's quick ancestor search asks the local chain service
// for anchors (its main-chain hashes from the best block down in steps of 16, at most 32 of them) and sends them
// to the remote node, whose chain service answers with the first anchor it finds on ITS main chain. The finder
// trusts that answer. Here both ends are real chain services: the local node L and the remote node R share a
// prefix, each has its own suffix, and R may hold the first blocks of L's suffix as an unadopted side branch.
// Oracle: an answer is one of the anchors (hence on L's main chain) AND on R's main chain, and it is the highest
// such anchor; "no ancestor" is answered only when no anchor is on R's main chain.

import (
	"bytes"
	"fmt"
	"testing"

	"github.com/aergoio/aergo/v2/types"
	"github.com/aergoio/aergo/v2/verifx/ev"
	"github.com/aergoio/aergo/v2/verifx/vnode"
	"pgregory.net/rapid"
)

func TestC17Anchors(t *testing.T) {
	rec := ev.New("C17", "anchors")
	defer rec.Flush()
	longPct := ev.IntEnv("VERIF_C17_LONGPCT", 8)
	rapid.Check(t, func(t *rapid.T) {
		opts := vnode.WorldOpts{Consensus: "sbp", Public: false, NUsers: 1, NBPs: 1, Magic: "verif.c17a"}
		spec := vnode.NewSpec(opts)
		var nodes []*vnode.Node
		for i := 0; i < 3; i++ {
			n, err := vnode.Open(spec, "")
			if err != nil {
				t.Fatal(err)
			}
			defer n.Remove()
			nodes = append(nodes, n)
		}
		G, L, R := nodes[0], nodes[1], nodes[2]
		common := rapid.IntRange(0, 40).Draw(t, "common")
		rExtra := rapid.IntRange(0, 40).Draw(t, "remoteExtra")
		lExtra := rapid.IntRange(0, 70).Draw(t, "localExtra")
		// beyond 31*16 = 496 blocks above the fork the lowest anchor is no longer the genesis block
		// (then no anchor may be on the remote main chain at all, and the lowest anchor is block d of the local branch)
		d := 0
		if v := rapid.IntRange(0, 99).Draw(t, "long"); v >= 40 && v < 40+longPct {
			d = rapid.IntRange(-20, 30).Draw(t, "lowestAnchorAboveFork")
			lExtra = 496 + d
			if d > 0 && rExtra < d+3 {
				rExtra = d + rapid.IntRange(0, 5).Draw(t, "remoteExtraLong")
			}
		}
		side := 0
		if lExtra > 0 && rExtra > 0 {
			side = rapid.IntRange(0, min(min(lExtra, rExtra), 24)).Draw(t, "sideBlocksOnRemote")
			// around the lowest anchor: the remote holds the local branch just up to / just short of it
			if d > 0 && rapid.Bool().Draw(t, "sideAroundLowestAnchor") {
				side = min(min(lExtra, rExtra), max(0, d+rapid.IntRange(-1, 3).Draw(t, "sideOffset")))
			}
		}
		G.SwitchTo()
		gen := G.Best()
		mk := func(prev *types.Block, n int, salt int64) []*types.Block {
			var out []*types.Block
			for i := 0; i < n; i++ {
				p, err := G.ProduceCommitted(prev, prev.GetHeader().GetTimestamp()+salt*1e9, nil, nil)
				if err != nil {
					t.Fatalf("produce: %v", err)
				}
				out = append(out, p.Block)
				prev = p.Block
			}
			return out
		}
		prefix := mk(gen, common, 1)
		fork := gen
		if common > 0 {
			fork = prefix[common-1]
		}
		rsuf := mk(fork, rExtra, 2)
		lsuf := mk(fork, lExtra, 3)
		feed := func(n *vnode.Node, blocks ...[]*types.Block) {
			n.SwitchTo()
			for _, bs := range blocks {
				for _, b := range bs {
					if err := n.AddPeer(b); err != nil {
						t.Fatalf("harness: block %d refused: %v", b.BlockNo(), err)
					}
				}
			}
		}
		feed(L, prefix, lsuf)
		feed(R, prefix, rsuf, lsuf[:side])
		if rExtra > 0 && !bytes.Equal(R.Best().BlockHash(), rsuf[rExtra-1].BlockHash()) {
			t.Fatalf("harness: the remote node is not on its own branch")
		}
		L.SwitchTo()
		anchors, lastNo, err := L.CS.VerifGetAnchors()
		if err != nil {
			t.Fatalf("local anchors: %v", err)
		}
		// anchors: L's main chain, descending, starting at the best block
		lbest := L.Best()
		if len(anchors) == 0 || !bytes.Equal(anchors[0], lbest.BlockHash()) {
			t.Fatalf("the first anchor is not the local best block")
		}
		prevNo := lbest.BlockNo() + 1
		lowest := uint64(0)
		for i, h := range anchors {
			b, err := L.CS.GetBlock(h)
			if err != nil {
				t.Fatalf("anchor %d is not a block the local node has", i)
			}
			mh, err := L.CS.GetHashByNo(b.BlockNo())
			if err != nil || !bytes.Equal(mh, h) {
				t.Fatalf("anchor %d (block %d) is not on the local main chain", i, b.BlockNo())
			}
			if b.BlockNo() >= prevNo {
				t.Fatalf("anchors are not strictly descending: block %d after block %d", b.BlockNo(), prevNo)
			}
			prevNo, lowest = b.BlockNo(), b.BlockNo()
		}
		if lowest != uint64(lastNo) {
			t.Fatalf("the reported lowest anchor height %d is not that of the last anchor (%d)", lastNo, lowest)
		}
		R.SwitchTo()
		onRemoteMain := func(h []byte) (uint64, bool) {
			b, err := R.CS.GetBlock(h)
			if err != nil {
				return 0, false
			}
			mh, err := R.CS.GetHashByNo(b.BlockNo())
			return b.BlockNo(), err == nil && bytes.Equal(mh, h)
		}
		var want []byte
		wantNo := uint64(0)
		for _, h := range anchors {
			if no, ok := onRemoteMain(h); ok {
				want, wantNo = h, no
				break
			}
		}
		desc := fmt.Sprintf("shared prefix %d, local +%d, remote +%d, remote holds %d local-branch blocks as a side branch; %d anchors down to height %d", common, lExtra, rExtra, side, len(anchors), lowest)
		anc, err := R.CS.VerifFindAncestor(anchors)
		switch {
		case err != nil && want != nil:
			t.Fatalf("the remote node answers %q although anchor %d is on its main chain\n%s", err, wantNo, desc)
		case err == nil && anc == nil:
			t.Fatalf("the remote node answers neither an ancestor nor an error\n%s", desc)
		case err == nil:
			if _, ok := onRemoteMain(anc.Hash); !ok {
				t.Fatalf("the remote node answers block %d/%x as the common ancestor, but that block is not on its main chain\n%s", anc.No, anc.Hash[:4], desc)
			}
			if want == nil || !bytes.Equal(anc.Hash, want) {
				t.Fatalf("the remote node answers block %d, the highest anchor on its main chain is %d\n%s", anc.No, wantNo, desc)
			}
		}
		cl := "short"
		if lowest > 0 {
			cl = "lowest-anchor-above-genesis"
		}
		if side > 0 {
			cl += ",remote-holds-local-branch-blocks"
		}
		if want == nil {
			cl += ",no-anchor-on-remote-main-chain"
		}
		rec.Case(cl, desc, side > 0 || lowest > 0, func() interface{} { return desc })
	})
}
