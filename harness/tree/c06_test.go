//go:build verif

package tree

// C06 — crash recovery by FAULT ENUMERATION. A generated scenario (block tree + arrival schedule:
// linear connection, orphan resolution, reorganisations) is run once on a node whose two stores
// journal every durable write unit. Then EVERY prefix of that journal (and, for bulk units, in the
// thorough tier every partial flush) is materialised as the on-disk stores of a fresh directory;
// a real node is started on it (the real Init -> loadChainData -> recover path, then Recover)
// and must: start, satisfy every chain-database invariant of C05, have as best block the tip
// before or the tip after the interrupted arrival, hold no reorg marker, and — after the same
// blocks are fed again — reach exactly the final state of the crash-free run.

import (
	"bytes"
	"fmt"
	"os"
	"strings"
	"testing"

	"github.com/aergoio/aergo/v2/types"
	"github.com/aergoio/aergo/v2/verifx/ev"
	"github.com/aergoio/aergo/v2/verifx/vnode"
	"pgregory.net/rapid"
)

func TestC06CrashPoints(t *testing.T) {
	rec := ev.New("C06", "crashpoints")
	defer rec.Flush()
	partialBulks := ev.Thorough()
	rapid.Check(t, func(t *rapid.T) {
		knownHits, ties := 0, 0
		opts := vnode.WorldOpts{
			Consensus: rapid.SampledFrom([]string{"dpos", "sbp"}).Draw(t, "consensus"),
			Public:    rapid.Bool().Draw(t, "public"),
			NUsers:    3, NBPs: 1,
			Hardfork: vnode.DrawHardfork(t, 6),
			Magic:    "verif.c06",
		}
		// a third of the DPoS cases run with the voting reward (the in-memory voting power ranking decides who is paid in
		// every block) and with blocks biased towards stakes and votes
		votingReward := opts.Consensus == "dpos" && rapid.IntRange(0, 2).Draw(t, "votingReward") == 0
		opts.FundVault = votingReward
		spec := vnode.NewSpec(opts)
		spec.VotingReward = votingReward
		G, err := vnode.Open(spec, "")
		if err != nil {
			t.Fatal(err)
		}
		defer G.Remove()
		w0 := &vnode.World{NUsers: opts.NUsers, NBPs: opts.NBPs, Public: opts.Public, DPoS: opts.Consensus == "dpos", GovBias: votingReward}
		tr := vnode.GenTree(t, G, w0, vnode.TreeOpts{MinBlocks: 2, MaxBlocks: 7, MaxTx: 3})
		sched := vnode.DrawSchedule(t, tr)
		for i := range tr.Blocks {
			sched = append(sched, i)
		}
		D, err := vnode.Open(spec, "")
		if err != nil {
			t.Fatal(err)
		}
		defer D.Remove()
		D.SwitchTo()
		genesisHash := D.Best().BlockHash()
		journal, snap := D.AttachJournal()
		// crash-free run: remember, per arrival, the journal range it wrote and the tips before/after
		type arrival struct {
			from, to      int // journal units [from, to)
			before, after []byte
			desc          string
			reorg         bool
		}
		var arrivals []arrival
		var known []*types.Block
		seen := map[int]bool{}
		reorgs := 0
		for _, bi := range sched {
			tb := tr.Blocks[bi]
			if !seen[bi] {
				seen[bi] = true
				known = append(known, tb.Block)
			}
			before := D.Best()
			from := journal.Len()
			D.AddPeer(tb.Block)
			after := D.Best()
			a := arrival{from: from, to: journal.Len(), before: before.BlockHash(), after: after.BlockHash(), desc: tb.Desc}
			if !bytes.Equal(a.before, a.after) && !isAncestor(D, before, after) {
				a.reorg = true
				reorgs++
			}
			arrivals = append(arrivals, a)
		}
		finalBest := D.Best()
		finalRoot := append([]byte{}, D.CS.SDB().GetRoot()...)
		finalDump, err := D.DumpAt(finalRoot)
		if err != nil {
			t.Fatalf("crash-free run: %v", err)
		}
		units := append([]vnode.JUnit{}, journal.Units...)
		var descs []string
		for _, b := range tr.Blocks {
			descs = append(descs, b.Desc)
		}
		inside, points := 0, 0
		tryPoint := func(k, partial int) {
			points++
			var a *arrival
			for i := range arrivals {
				if k >= arrivals[i].from && k < arrivals[i].to || (k == arrivals[i].to && partial < 0 && i == len(arrivals)-1) {
					a = &arrivals[i]
					break
				}
				if k == arrivals[i].from && partial < 0 && arrivals[i].from == arrivals[i].to {
					continue
				}
			}
			allowed := [][]byte{}
			where := fmt.Sprintf("crash after %d of %d write units", k, len(units))
			if partial >= 0 {
				where += fmt.Sprintf(" + %d of %d operations of the next (bulk) unit", partial, len(units[k].Ops))
			}
			if a != nil {
				allowed = append(allowed, a.before, a.after)
				if !a.reorg {
					// an arrival that connects several blocks (orphan resolution) passes through every
					// block between the old and the new tip
					for cur, _ := D.CS.GetBlock(a.after); cur != nil && !bytes.Equal(cur.BlockHash(), a.before) && cur.BlockNo() > 0; {
						allowed = append(allowed, cur.BlockHash())
						cur, _ = D.CS.GetBlock(cur.GetHeader().GetPrevBlockHash())
					}
				}
				where += fmt.Sprintf(" (inside the arrival of %s, units %d..%d, reorg=%v)", a.desc, a.from, a.to, a.reorg)
				if k > a.from || partial >= 0 {
					inside++
				}
			} else {
				allowed = append(allowed, finalBest.BlockHash())
			}
			// a crash exactly at an arrival boundary: the tip after the previous arrival
			for i := range arrivals {
				if arrivals[i].to == k && partial < 0 {
					allowed = append(allowed, arrivals[i].after)
				}
				if arrivals[i].from == k && partial < 0 {
					allowed = append(allowed, arrivals[i].before)
				}
			}
			dir := vnode.TempDir("crash")
			defer os.RemoveAll(dir)
			if err := vnode.Materialise(dir, snap, units, k, partial); err != nil {
				t.Fatalf("materialise: %v", err)
			}
			ctx := func() string {
				var us []string
				for i, u := range units {
					mark := " "
					if i == k {
						mark = ">"
					}
					us = append(us, fmt.Sprintf("%s%d:%s/%d", mark, i, u.Kind, len(u.Ops)))
				}
				return fmt.Sprintf("tree:\n  %s\nschedule: %v\njournal: %s", strings.Join(descs, "\n  "), sched, strings.Join(us, " "))
			}
			var R *vnode.Node
			func() {
				defer func() {
					if p := recover(); p != nil {
						t.Fatalf("%s: restart panicked: %v\n%s", where, p, ctx())
					}
				}()
				R, err = vnode.Open(spec, dir)
			}()
			if err != nil {
				t.Fatalf("%s: the node does not start: %v\n%s", where, err, ctx())
			}
			defer R.Close()
			R.SwitchTo()
			if err := R.CS.Recover(); err != nil {
				t.Fatalf("%s: recovery failed: %v\n%s", where, err, ctx())
			}
			if err := R.CheckChainInvariants(genesisHash, known); err != nil {
				t.Fatalf("%s: after restart and recovery the chain database is incoherent: %v\n%s", where, err, ctx())
			}
			best := R.Best().BlockHash()
			ok := false
			for _, h := range allowed {
				if bytes.Equal(h, best) {
					ok = true
				}
			}
			if !ok {
				t.Fatalf("%s: after recovery the best block is %d/%x, which is neither the tip before nor the tip after the interrupted operation\n%s", where, R.Best().BlockNo(), best[:6], ctx())
			}
			// feeding the same blocks again converges to the crash-free result
			for _, bi := range sched { // the same arrivals in the same order
				R.AddPeer(tr.Blocks[bi].Block)
			}
			if !bytes.Equal(R.Best().BlockHash(), finalBest.BlockHash()) && a != nil && a.reorg && bytes.Equal(best, a.before) && storedIn(R, a.after) &&
				rec.IsKnown("crash-before-reorg-leaves-longer-branch-unadopted") {
				// known finding: the crash hit after the new branch was stored but before the switch was made durable;
				// stored blocks are ignored when fed again, so the node stays on the old branch until that branch grows
				rec.Excluded("crash-before-reorg-leaves-longer-branch-unadopted")
				knownHits++
				if err := R.CheckChainInvariants(genesisHash, known); err != nil {
					t.Fatalf("%s: after feeding all blocks again the chain database is incoherent: %v\n%s", where, err, ctx())
				}
				return
			}
			if !bytes.Equal(R.Best().BlockHash(), finalBest.BlockHash()) && R.Best().BlockNo() == finalBest.BlockNo() {
				// two branches of the same length: which one is kept depends on the arrival order as the node saw
				// it, and the orphan pool (memory only) is legitimately lost in a crash
				ties++
				if err := R.CheckChainInvariants(genesisHash, known); err != nil {
					t.Fatalf("%s: after feeding all blocks again the chain database is incoherent: %v\n%s", where, err, ctx())
				}
				return
			}
			if !bytes.Equal(R.Best().BlockHash(), finalBest.BlockHash()) {
				t.Fatalf("%s: after feeding all blocks again the best block is %d/%x, the crash-free run ended at %d/%x\n%s", where, R.Best().BlockNo(), R.Best().BlockHash()[:6], finalBest.BlockNo(), finalBest.BlockHash()[:6], ctx())
			}
			if !bytes.Equal(R.CS.SDB().GetRoot(), finalRoot) {
				t.Fatalf("%s: after feeding all blocks again the state root differs from the crash-free run\n%s", where, ctx())
			}
			d, err := R.DumpAt(finalRoot)
			if err != nil || d.String() != finalDump.String() {
				t.Fatalf("%s: after feeding all blocks again the state is not fully readable / differs (err %v)\n%s", where, err, ctx())
			}
			if err := R.CheckChainInvariants(genesisHash, known); err != nil {
				t.Fatalf("%s: after feeding all blocks again the chain database is incoherent: %v\n%s", where, err, ctx())
			}
		}
		for k := 0; k <= len(units); k++ {
			tryPoint(k, -1)
			if k < len(units) && units[k].Kind == "bulk" && len(units[k].Ops) > 1 {
				if partialBulks {
					for p := 1; p < len(units[k].Ops); p++ {
						tryPoint(k, p)
					}
				} else {
					// quick tier: one drawn partial flush per bulk
					tryPoint(k, rapid.IntRange(1, len(units[k].Ops)-1).Draw(t, "partialFlush"))
				}
			}
		}
		rec.LabelN("crash-points", int64(points))
		rec.LabelN("crash-points-inside-an-operation", int64(inside))
		cl := []string{}
		if reorgs > 0 {
			cl = append(cl, "reorg")
		}
		if ties > 0 {
			cl = append(cl, "equal-length-tie-after-crash")
		}
		if knownHits > 0 {
			cl = append(cl, "known:crash-before-reorg-leaves-longer-branch-unadopted")
		}
		rec.Case(strings.Join(cl, ","), fmt.Sprintf("%+v|%s|%v", opts, strings.Join(descs, "|"), sched), inside > 0, func() interface{} {
			return map[string]interface{}{"tree": descs, "schedule": sched, "journal_units": len(units), "crash_points": points, "inside_operation": inside, "reorgs": reorgs}
		})
	})
}

func storedIn(n *vnode.Node, hash []byte) bool {
	_, err := n.CS.GetBlock(hash)
	return err == nil
}

// known: C06 crash-before-reorg-leaves-longer-branch-unadopted — deterministic reproduction
func TestC06KnownUnadoptedBranch(t *testing.T) {
	rec := ev.New("C06", "known-unadopted-branch")
	defer rec.Flush()
	f := newFixture(t)
	a1 := f.block(t, f.gen, 1, f.transfer(f.gen, 0, 1, 1, 5))
	b1 := f.block(t, f.gen, 2, f.transfer(f.gen, 1, 1, 2, 7))
	b2 := f.block(t, b1.Block, 1, f.transfer(b1.Block, 1, 2, 2, 7))
	f.D.SwitchTo()
	f.D.AddPeer(a1.Block)
	f.D.AddPeer(b1.Block)
	journal, snap := f.D.AttachJournal()
	if err := f.D.AddPeer(b2.Block); err != nil || !bytes.Equal(f.D.Best().BlockHash(), b2.Block.BlockHash()) {
		t.Fatalf("harness: crash-free run did not reorganise to b2: %v", err)
	}
	rec.Case("regression", "unadopted-branch", true, func() interface{} { return "a1 | b1 b2: deliver a1, b1, b2; crash right after b2 was stored" })
	rec.Case("regression", "unadopted-branch-2", true, func() interface{} { return "second fingerprint of the same scenario" })
	// crash right after the first write unit of b2's arrival (b2 stored as a side-branch block)
	dir := vnode.TempDir("crash")
	defer os.RemoveAll(dir)
	if err := vnode.Materialise(dir, snap, journal.Units, 1, -1); err != nil {
		t.Fatal(err)
	}
	R, err := vnode.Open(f.spec, dir)
	if err != nil {
		t.Fatalf("restart: %v", err)
	}
	defer R.Close()
	R.SwitchTo()
	if err := R.CS.Recover(); err != nil {
		t.Fatalf("recover: %v", err)
	}
	for _, b := range []*types.Block{a1.Block, b1.Block, b2.Block} {
		R.AddPeer(b)
	}
	if bytes.Equal(R.Best().BlockHash(), b2.Block.BlockHash()) {
		return // the node adopted the stored longer branch: the finding is gone
	}
	if !storedIn(R, b2.Block.BlockHash()) {
		t.Fatalf("harness: b2 not stored at the crash point")
	}
	if rec.IsKnown("crash-before-reorg-leaves-longer-branch-unadopted") {
		rec.Excluded("crash-before-reorg-leaves-longer-branch-unadopted")
		return
	}
	t.Fatalf("after a crash right after b2 was stored, feeding a1, b1, b2 again leaves the best block at %d although the longer branch b1-b2 is stored", R.Best().BlockNo())
}
