//go:build verif

package tree

// Hand-written minimal histories: regression tests for the defects the generated checks found
// (fixed in /repo) and the deterministic reproduction of the listed known finding.

import (
	"bytes"
	"fmt"
	"math/big"
	"testing"

	"github.com/aergoio/aergo/v2/contract/system"
	"github.com/aergoio/aergo/v2/types"
	"github.com/aergoio/aergo/v2/verifx/ev"
	"github.com/aergoio/aergo/v2/verifx/vnode"
)

type fixture struct {
	spec *vnode.Spec
	G, D *vnode.Node
	gen  *types.Block
}

func newFixture(t *testing.T) *fixture { return newFixtureNet(t, false) }

// newFixtureNet: a public network charges fees (a private one runs with zero fees).
func newFixtureNet(t *testing.T, public bool) *fixture {
	opts := vnode.WorldOpts{Consensus: "dpos", Public: public, NUsers: 3, NBPs: 1, Magic: "verif.regress"}
	spec := vnode.NewSpec(opts)
	G, err := vnode.Open(spec, "")
	if err != nil {
		t.Fatal(err)
	}
	D, err := vnode.Open(spec, "")
	if err != nil {
		t.Fatal(err)
	}
	t.Cleanup(func() { G.Remove(); D.Remove() })
	return &fixture{spec: spec, G: G, D: D, gen: G.Best()}
}

func (f *fixture) transfer(prev *types.Block, from int, nonce uint64, to int, aergo int64) *types.Tx {
	s := &vnode.TxSpec{Kind: "transfer", From: from, Nonce: nonce, Type: types.TxType_TRANSFER, Recipient: vnode.KeyN(to).Addr,
		Amount: new(big.Int).Mul(vnode.Aergo, big.NewInt(aergo))}
	return s.Build(f.G.ChainIDHashFor(prev))
}

func (f *fixture) block(t *testing.T, prev *types.Block, salt int64, txs ...*types.Tx) *vnode.Produced {
	p, err := f.G.ProduceCommitted(prev, prev.GetHeader().GetTimestamp()+salt*1000000000, txs, nil)
	if err != nil {
		t.Fatal(err)
	}
	if len(p.Included) != len(txs) {
		t.Fatalf("harness: producer skipped %d transactions", len(txs)-len(p.Included))
	}
	return p
}

// fixed: C03/C05/C07 reorg-failed-rollforward-residue
func TestC03RegressionFailedReorg(t *testing.T) {
	rec := ev.New("C03", "regress-failed-reorg")
	defer rec.Flush()
	f := newFixture(t)
	a1 := f.block(t, f.gen, 1, f.transfer(f.gen, 0, 1, 1, 5))
	a2 := f.block(t, a1.Block, 1, f.transfer(a1.Block, 0, 2, 1, 5))
	b1 := f.block(t, f.gen, 2, f.transfer(f.gen, 1, 1, 2, 7))
	b2 := f.block(t, b1.Block, 1, f.transfer(b1.Block, 1, 2, 2, 7))
	b2bad := vnode.WithStateRootFlipped(b2.Block)
	f.D.SwitchTo()
	if err := f.D.AddPeer(a1.Block); err != nil {
		t.Fatal(err)
	}
	if err := f.D.AddPeer(b1.Block); err != nil {
		t.Fatal(err)
	}
	err := f.D.AddPeer(b2bad) // longer branch whose second block is invalid: roll-forward fails
	if err == nil {
		t.Fatalf("invalid branch accepted")
	}
	if !bytes.Equal(f.D.Best().BlockHash(), a1.Block.BlockHash()) {
		t.Fatalf("best block changed by a refused branch")
	}
	if !bytes.Equal(f.D.CS.SDB().GetRoot(), a1.Block.GetHeader().GetBlocksRootHash()) {
		t.Fatalf("after a reorganisation that failed at the 2nd block of the new branch the world state root is %x, not the best block's %x",
			f.D.CS.SDB().GetRoot()[:6], a1.Block.GetHeader().GetBlocksRootHash()[:6])
	}
	if err := f.D.AddPeer(a2.Block); err != nil {
		t.Fatalf("the genuine child of the best block is refused after the failed reorganisation: %v", err)
	}
	rec.Case("regression", "failed-reorg-residue", true, func() interface{} { return "a1 | b1 b2(bad state root): deliver a1,b1,b2bad,a2" })
	rec.Case("regression", "failed-reorg-residue-2", true, func() interface{} { return "second fingerprint of the same regression" })
}

// fixed: C07 reorg-executes-new-branch-with-old-branch-params. The main chain votes a system parameter in (gas price
// 3 aer instead of 50 gaer); a longer side branch, on which nothing was voted, holds a fee-paying transaction. The
// side branch is valid and must be adopted; before the fix its blocks were re-executed with the parameters of the
// branch being abandoned, the fee and with it the state root came out different and the reorganisation failed.
func TestC07RegressionParamsDuringReorg(t *testing.T) {
	rec := ev.New("C07", "regress-params-during-reorg")
	defer rec.Flush()
	f := newFixtureNet(t, true)
	gov := func(prev *types.Block, from int, nonce uint64, to string, amount *big.Int, payload []byte) *types.Tx {
		s := &vnode.TxSpec{Kind: "gov", From: from, Nonce: nonce, Type: types.TxType_GOVERNANCE, Recipient: []byte(to), Amount: amount, Payload: payload}
		return s.Build(f.G.ChainIDHashFor(prev))
	}
	f.G.SwitchTo()
	a1 := f.block(t, f.gen, 1,
		gov(f.gen, 0, 1, types.AergoSystem, vnode.StakeMin, vnode.CallInfo("v1stake")),
		gov(f.gen, 0, 2, types.AergoSystem, new(big.Int), vnode.CallInfo("v1voteDAO", "GASPRICE", "3")))
	a2 := f.block(t, a1.Block, 1)
	f.G.SwitchTo()
	pay := &vnode.TxSpec{Kind: "normal", From: 1, Nonce: 1, Type: types.TxType_NORMAL, Recipient: vnode.KeyN(2).Addr, Amount: vnode.Aergo, Payload: bytes.Repeat([]byte("p"), 300)}
	s1 := f.block(t, f.gen, 2, pay.Build(f.G.ChainIDHashFor(f.gen)))
	s2 := f.block(t, s1.Block, 1)
	s3 := f.block(t, s2.Block, 1)
	f.D.SwitchTo()
	for _, b := range []*types.Block{a1.Block, a2.Block} {
		if err := f.D.AddPeer(b); err != nil {
			t.Fatal(err)
		}
	}
	voted := system.GetGasPrice().String()
	var last error
	for _, b := range []*types.Block{s1.Block, s2.Block, s3.Block} {
		last = f.D.AddPeer(b)
	}
	if !bytes.Equal(f.D.Best().BlockHash(), s3.Block.BlockHash()) {
		t.Fatalf("the valid side branch of 3 blocks was not adopted over the main chain of 2 (best block %d, error of the last delivery: %v); gas price voted in on the main chain: %s aer",
			f.D.Best().BlockNo(), last, voted)
	}
	rec.Case("regression", "params-during-reorg", voted == "3", func() interface{} {
		return "a1[stake, voteDAO GASPRICE 3] a2 | s1[transfer with a 300-byte payload] s2 s3: deliver a1,a2,s1,s2,s3"
	})
	rec.Case("regression", "params-during-reorg-2", voted == "3", nil)
}

// fixed: C04 stale-signature-verdict
func TestC04RegressionStaleVerify(t *testing.T) {
	rec := ev.New("C04", "regress-stale-verify")
	defer rec.Flush()
	f := newFixture(t)
	x := f.block(t, f.gen, 1, f.transfer(f.gen, 0, 1, 1, 5))
	// X: all signatures genuine, but the block fails during execution (nonce gap at the end)
	xbad := vnode.WithExtraTx(x.Block, f.transfer(f.gen, 0, 5, 1, 1))
	y := f.block(t, f.gen, 2, f.transfer(f.gen, 1, 1, 2, 7), f.transfer(f.gen, 2, 1, 0, 3))
	yforged := vnode.ForgeTx(y.Block, y, 0, "forged-sig")
	f.D.SwitchTo()
	if err := f.D.AddPeer(xbad); err == nil {
		t.Fatalf("block with a nonce gap accepted")
	}
	if err := f.D.AddPeer(yforged); err == nil {
		t.Fatalf("a block holding a transaction signed with the wrong key was accepted right after a block that was dropped during execution (best block now %d)", f.D.Best().BlockNo())
	}
	if f.D.Best().BlockNo() != 0 {
		t.Fatalf("best block moved")
	}
	if err := f.D.AddPeer(y.Block); err != nil {
		t.Fatalf("the genuine block is refused afterwards: %v", err)
	}
	// an empty block after a dropped block whose signatures were bad must not inherit the verdict
	z := f.block(t, y.Block, 1, f.transfer(y.Block, 0, 1, 1, 1))
	zforged := vnode.ForgeTx(z.Block, z, 0, "forged-sig")
	zbad := vnode.WithExtraTx(zforged, f.transfer(y.Block, 0, 9, 1, 1))
	if err := f.D.AddPeer(zbad); err == nil {
		t.Fatalf("forged block accepted")
	}
	e := f.block(t, y.Block, 3)
	if err := f.D.AddPeer(e.Block); err != nil {
		t.Fatalf("a valid empty block is refused after a dropped block with bad signatures: %v", err)
	}
	rec.Case("regression", "stale-verify", true, func() interface{} { return "xbad(nonce gap) then yforged(wrong key)" })
	rec.Case("regression", "stale-verify-2", true, func() interface{} { return "zbad(forged+gap) then empty block" })
}

// known: C07 valid-prefix-of-invalid-branch
func TestC07KnownValidPrefix(t *testing.T) {
	rec := ev.New("C07", "known-valid-prefix")
	defer rec.Flush()
	f := newFixture(t)
	a1 := f.block(t, f.gen, 1, f.transfer(f.gen, 0, 1, 1, 5))
	b1 := f.block(t, f.gen, 2, f.transfer(f.gen, 1, 1, 2, 7))
	b2 := f.block(t, b1.Block, 1, f.transfer(b1.Block, 1, 2, 2, 7))
	b3 := f.block(t, b2.Block, 1)
	b3bad := vnode.WithStateRootFlipped(b3.Block)
	f.D.SwitchTo()
	if err := f.D.AddPeer(a1.Block); err != nil {
		t.Fatal(err)
	}
	f.D.AddPeer(b3bad)    // orphan
	f.D.AddPeer(b2.Block) // orphan
	err := f.D.AddPeer(b1.Block)
	rec.Case("regression", "valid-prefix", true, func() interface{} { return "a1 | b1 b2 b3(bad): deliver a1,b3bad,b2,b1" })
	rec.Case("regression", "valid-prefix-2", true, func() interface{} { return "second fingerprint of the same scenario" })
	if f.D.Best().BlockNo() == 2 && bytes.Equal(f.D.Best().BlockHash(), b2.Block.BlockHash()) {
		return // the node adopted the valid prefix: the finding is gone
	}
	if _, e := f.D.CS.GetBlock(b2.Block.BlockHash()); e != nil {
		t.Fatalf("harness: b2 not stored")
	}
	if rec.IsKnown("valid-prefix-of-invalid-branch") {
		rec.Excluded("valid-prefix-of-invalid-branch")
		return
	}
	t.Fatalf("the valid branch b1-b2 (height 2) is completely stored but the best block is %d (delivery error: %v)", f.D.Best().BlockNo(), err)
}

// TestC05Exhaustive delivers EVERY arrival order of the blocks of a few small trees (with
// transactions shared between and conflicting across branches) to a fresh node and checks the
// chain-database invariants after every arrival.
func TestC05Exhaustive(t *testing.T) {
	rec := ev.New("C05", "exhaustive")
	defer rec.Flush()
	rec.SetExhaustive(true)
	maxBlocks := ev.IntEnv("VERIF_C05_BLOCKS", 4)
	shard, nshards := ev.IntEnv("VERIF_SHARD_IDX", 0), ev.IntEnv("VERIF_NSHARDS", 1)
	f := newFixture(t)
	// shapes: parent index per block (-1 = genesis); tx: which user sends (shared users create conflicts)
	shapes := [][]int{
		{-1, 0, 1, 2},        // linear
		{-1, 0, -1, 2},       // two branches of 2 from genesis
		{-1, 0, 1, 0},        // side block from block 0 beside a longer main
		{-1, -1, 1, 2},       // short main, longer side
		{-1, 0, 0, 2, 3},     // fork at block 0, side overtakes
		{-1, 0, -1, 2, 3},    // side from genesis overtakes a main of 2
		{-1, 0, 1, -1, 3, 4}, // two branches of 3 from genesis (tie: first seen wins)
		{-1, 0, 1, 2, 1, 4},  // fork two below the tip, side reaches the same height
		{-1, 0, 0, 1, 2, 4},  // three tips: the fork at block 0 ends in branches of 3 and 4
	}
	count := 0
	for si, shape := range shapes {
		if len(shape) > maxBlocks {
			continue
		}
		// build the blocks once
		blocks := make([]*types.Block, len(shape))
		nonces := make([]map[int]uint64, len(shape))
		for i, par := range shape {
			prev := f.gen
			pn := map[int]uint64{}
			if par >= 0 {
				prev = blocks[par]
				for k, v := range nonces[par] {
					pn[k] = v
				}
			}
			u := i % 2 // users 0 and 1 alternate: branches conflict on (sender, nonce)
			pn[u]++
			p := f.block(t, prev, int64(i+1), f.transfer(prev, u, pn[u], 2, int64(i+1)))
			blocks[i] = p.Block
			nonces[i] = pn
		}
		idx := make([]int, len(shape))
		for i := range idx {
			idx[i] = i
		}
		var perms [][]int
		var gen func(k int)
		gen = func(k int) {
			if k == len(idx) {
				perms = append(perms, append([]int{}, idx...))
				return
			}
			for i := k; i < len(idx); i++ {
				idx[k], idx[i] = idx[i], idx[k]
				gen(k + 1)
				idx[k], idx[i] = idx[i], idx[k]
			}
		}
		gen(0)
		// variants: no invalid block, or block `bad` carries a wrong state root (its descendants are re-parented onto
		// the altered block and are invalid by ancestry). Quick tier: none, the first and the last block; thorough: all.
		bads := []int{-1, 0, len(shape) - 1}
		if ev.Thorough() {
			bads = []int{-1}
			for i := range shape {
				bads = append(bads, i)
			}
		}
		for _, bad := range bads {
			deliv := make([]*types.Block, len(shape))
			invalid := map[string]bool{}
			for i, par := range shape {
				deliv[i] = blocks[i]
				if par >= 0 && invalid[string(deliv[par].BlockHash())] {
					deliv[i] = vnode.Reparent(blocks[i], deliv[par])
					invalid[string(deliv[i].BlockHash())] = true
				}
				if i == bad {
					deliv[i] = vnode.WithStateRootFlipped(deliv[i])
					invalid[string(deliv[i].BlockHash())] = true
				}
			}
			for pi, perm := range perms {
				if (count+pi)%nshards != shard {
					continue
				}
				D, err := vnode.Open(f.spec, "")
				if err != nil {
					t.Fatal(err)
				}
				D.SwitchTo()
				var known []*types.Block
				reorg := false
				for step, bi := range perm {
					known = append(known, deliv[bi])
					before := D.Best()
					D.AddPeer(deliv[bi])
					after := D.Best()
					if !bytes.Equal(before.BlockHash(), after.BlockHash()) && !isAncestor(D, before, after) {
						reorg = true
					}
					fail := func(msg string) {
						D.Remove()
						path := rec.WriteReplay(fmt.Sprintf("c05-exhaustive-shape%d-bad%d-perm%d.json", si, bad, pi), map[string]interface{}{"shape": shape, "invalid block": bad, "order": perm, "step": step})
						t.Fatalf("shape %v (block %d with a wrong state root), arrival order %v, after arrival %d: %s (replay %s)", shape, bad, perm, step, msg, path)
					}
					if invalid[string(after.BlockHash())] {
						fail("the best block is an invalid block or built on one")
					}
					if err := D.CheckChainInvariants(f.gen.BlockHash(), known); err != nil {
						fail(err.Error())
					}
				}
				D.Remove()
				nontrivial := reorg || perm[0] != 0 || bad >= 0
				rec.Case(fmt.Sprintf("shape%d", si), fmt.Sprintf("%v|%d|%v", shape, bad, perm), nontrivial, func() interface{} {
					return map[string]interface{}{"shape(parent of each block)": shape, "block with a wrong state root (-1: none)": bad, "arrival order": perm}
				})
			}
			count += len(perms)
		}
	}
}
