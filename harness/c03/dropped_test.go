//go:build verif

package c03

// C03 (produced blocks that are not connected) — "rejected: the state is exactly as if it had never been
// submitted". A block producer executes the transactions of its pool while it builds a block; when that block is
// not connected (another producer's block for the same height was connected first: the chain service refuses the own
// block as stale; or the block is given up before delivery) none of its transactions is in any block. The node
// must go on exactly like a node that never built the block: it accepts the blocks the rest of the network
// produces (which carry those transactions later), and its process-wide governance state (voting power ranking,
// active system parameters) is the one a node restarted on the same chain state would load.
//
// A reference node R produces the canonical chain (governance-biased transactions). The node under test N receives
// that chain; before some of the blocks it builds a block of its own from the transactions of the coming blocks and
// loses it. Only N runs in the process during that phase, so its process-wide state is exactly what a real node
// would have.

import (
	"fmt"
	"strings"
	"testing"

	"github.com/aergoio/aergo/v2/contract/system"
	"github.com/aergoio/aergo/v2/state/statedb"
	"github.com/aergoio/aergo/v2/types"
	"github.com/aergoio/aergo/v2/verifx/ev"
	"github.com/aergoio/aergo/v2/verifx/vnode"
	"pgregory.net/rapid"
)

func TestC03DroppedProduction(t *testing.T) {
	rec := ev.New("C03", "dropped-production")
	defer rec.Flush()
	rapid.Check(t, func(t *rapid.T) {
		opts := vnode.WorldOpts{Consensus: "dpos", Public: rapid.Bool().Draw(t, "public"), NUsers: rapid.IntRange(2, 4).Draw(t, "nusers"),
			NBPs: rapid.IntRange(1, 3).Draw(t, "nbps"), Hardfork: vnode.DrawHardfork(t, 4), Magic: "verif.c03d"}
		spec := vnode.NewSpec(opts)
		spec.VotingReward = true
		R, err := vnode.Open(spec, "")
		if err != nil {
			t.Fatal(err)
		}
		defer R.Remove()
		N, err := vnode.Open(spec, "")
		if err != nil {
			t.Fatal(err)
		}
		defer N.Remove()
		// phase 1: the canonical chain
		w := &vnode.World{NUsers: opts.NUsers, NBPs: opts.NBPs, Public: opts.Public, DPoS: true, GovBias: true}
		nblocks := rapid.IntRange(3, 7).Draw(t, "blocks")
		var chainBlocks []*types.Block
		var sysTxs []int
		prev := R.Best()
		for b := 0; b < nblocks; b++ {
			R.SwitchTo()
			cands, specs, err := R.DrawCandidates(t, w, prev, 5)
			if err != nil {
				t.Fatal(err)
			}
			p, err := R.Produce(prev, prev.GetHeader().GetTimestamp()+1e9, cands, nil)
			if err != nil {
				t.Fatalf("produce: %v", err)
			}
			if err := R.AddOwn(p); err != nil {
				t.Fatalf("connect own block: %v", err)
			}
			w.Learn(p, specs)
			n := 0
			for _, tx := range p.Block.GetBody().GetTxs() {
				if string(tx.GetBody().GetRecipient()) == types.AergoSystem {
					n++
				}
			}
			sysTxs = append(sysTxs, n)
			chainBlocks = append(chainBlocks, p.Block)
			prev = p.Block
		}
		// phase 2: only N from here on
		N.SwitchTo()
		var hist []string
		lost, lostWithSys := 0, 0
		governanceState := func(where string) string {
			root := N.Best().GetHeader().GetBlocksRootHash()
			scs, err := statedb.GetSystemAccountState(N.CS.SDB().OpenNewStateDB(root))
			if err != nil {
				t.Fatal(err)
			}
			if eq, mem, st, err := system.VerifVPREqualsState(scs); err != nil || !eq {
				return fmt.Sprintf("%s: the in-memory voting power ranking (total %v) differs from the one loaded from the state of the best block (total %v, err %v)", where, mem, st, err)
			}
			if diff := system.VerifParamsMatchState(scs); diff != "" {
				return fmt.Sprintf("%s: active system parameters differ from those loaded from the state of the best block: %s", where, diff)
			}
			return ""
		}
		// fail reports msg, unless it is the listed finding (a lost own block that had executed governance transactions):
		// then the case is counted as excluded and ends
		fail := func(msg string) {
			if lostWithSys > 0 && rec.IsKnown("unconnected-produced-block-leaks-governance-state") {
				rec.Excluded("unconnected-produced-block-leaks-governance-state")
				return
			}
			t.Fatalf("%s\nhistory: %s", msg, strings.Join(hist, " | "))
		}
		for i, b := range chainBlocks {
			mode := rapid.SampledFrom([]string{"none", "none", "stale", "given-up"}).Draw(t, "ownBlock")
			var own *vnode.Produced
			if mode != "none" {
				// N's pool holds the transactions of the coming blocks: N builds its own block for this height
				var cands []*types.Tx
				upTo := i + rapid.IntRange(1, 2).Draw(t, "lookahead")
				nsys := 0
				for j := i; j < upTo && j < len(chainBlocks); j++ {
					cands = append(cands, chainBlocks[j].GetBody().GetTxs()...)
					nsys += sysTxs[j]
				}
				best := N.Best()
				own, err = N.Produce(best, best.GetHeader().GetTimestamp()+1e9+5e8, cands, nil)
				if err != nil {
					t.Fatalf("produce own block: %v", err)
				}
				lost++
				if nsys > 0 {
					lostWithSys++
				}
				hist = append(hist, fmt.Sprintf("own block at height %d with %d transactions (%d to aergo.system): %s", own.Block.BlockNo(), len(own.Block.GetBody().GetTxs()), nsys, mode))
			}
			if err := N.AddPeer(b); err != nil {
				hist = append(hist, fmt.Sprintf("block %d of the network refused", b.BlockNo()))
				fail(fmt.Sprintf("block %d of the canonical chain (%d transactions) was refused by a node that had built and lost blocks of its own: %v", b.BlockNo(), len(b.GetBody().GetTxs()), err))
				return
			}
			hist = append(hist, fmt.Sprintf("block %d connected", b.BlockNo()))
			if mode == "stale" {
				// the own block arrives at the chain service after the network's block for the same height
				if err := N.AddOwn(own); err == nil {
					t.Fatalf("harness: the own block for an occupied height was connected\nhistory: %s", strings.Join(hist, " | "))
				}
			}
			if msg := governanceState(fmt.Sprintf("after block %d", b.BlockNo())); msg != "" {
				fail(msg)
				return
			}
		}
		cls := "no-own-block"
		if lostWithSys > 0 {
			cls = "lost-own-block-with-governance-txs"
		} else if lost > 0 {
			cls = "lost-own-block"
		}
		rec.Case(cls, fmt.Sprintf("%+v|%s", opts, strings.Join(hist, "|")), lostWithSys > 0, func() interface{} { return hist })
	})
}
