//go:build verif

package c03

// C03 (transaction part) — every transaction in a block has exactly one of three outcomes:
//   success  : a non-ERROR receipt; sender nonce +1; total supply drops by exactly the fee
//              (the fee sits in the block's reward accumulator until the end of the block)
//   error    : an ERROR receipt; the ONLY differences to the state before the transaction are
//              the payer's balance (- fee) and the sender's nonce (+1)
//   rejected : no receipt; the full state is bit-for-bit the state before the transaction
//
// Observation: the full state after the first k transactions is obtained by executing the
// first k transactions through the real executor on a fresh block state at the parent root,
// Update + Commit, and dumping EVERYTHING reachable from the new root. S_k vs S_{k-1} is then
// compared by outcome. Finally the whole list and the list without the rejected transactions
// must end in the same root (a rejected transaction is as if it had never been submitted).

import (
	"bytes"
	"fmt"
	"math/big"
	"sort"
	"strings"
	"testing"

	"github.com/aergoio/aergo/v2/contract"
	"github.com/aergoio/aergo/v2/types"
	"github.com/aergoio/aergo/v2/verifx/ev"
	"github.com/aergoio/aergo/v2/verifx/vnode"
	"pgregory.net/rapid"
)

func TestC03TxAtomicity(t *testing.T) {
	rec := ev.New("C03", "txatomicity")
	defer rec.Flush()
	rapid.Check(t, func(t *rapid.T) {
		opts := vnode.WorldOpts{
			Consensus: rapid.SampledFrom([]string{"dpos", "dpos", "sbp"}).Draw(t, "consensus"),
			Public:    rapid.Bool().Draw(t, "public"),
			NUsers:    rapid.IntRange(2, 4).Draw(t, "nusers"),
			NBPs:      rapid.IntRange(1, 3).Draw(t, "nbps"),
			Hardfork:  vnode.DrawHardfork(t, 6),
			Magic:     "verif.c03",
		}
		spec := vnode.NewSpec(opts)
		N, err := vnode.Open(spec, "")
		if err != nil {
			t.Fatalf("open: %v", err)
		}
		defer N.Remove()
		w := &vnode.World{NUsers: opts.NUsers, NBPs: opts.NBPs, Public: opts.Public, DPoS: opts.Consensus == "dpos"}
		prev := N.Best()
		// prefix history: build up stakes, names, contracts
		npre := rapid.IntRange(0, 3).Draw(t, "nprefix")
		for b := 0; b < npre; b++ {
			N.SwitchTo()
			cands, specs, err := N.DrawCandidates(t, w, prev, 6)
			if err != nil {
				t.Fatal(err)
			}
			p, err := N.Produce(prev, prev.GetHeader().GetTimestamp()+1000000000, cands, nil)
			if err != nil {
				t.Fatalf("produce: %v", err)
			}
			if err := N.AddOwn(p); err != nil {
				t.Fatalf("connect own block: %v", err)
			}
			w.Learn(p, specs)
			prev = p.Block
		}
		// in a quarter of the cases: a fee-delegating contract that owns about one fee, and a block biased towards
		// fee-delegated calls with an amount that burn gas and fail
		if rapid.IntRange(0, 3).Draw(t, "fdScene") == 0 {
			fund := new(big.Int).Mul(big.NewInt(int64(rapid.SampledFrom([]int{1, 5, 6, 8, 20, 100}).Draw(t, "fdFund"))), big.NewInt(1e15))
			nb, err := N.SetupFeeDelegationScene(w, prev, fund)
			prev = nb
			w.FDBias = err == nil
			if err == nil {
				rec.Label("fee-delegation-scene")
			}
		}
		N.SwitchTo()
		txs, specs, err := N.DrawCandidates(t, w, prev, 8)
		if err != nil {
			t.Fatal(err)
		}
		mode := contract.ChainService
		if rapid.Bool().Draw(t, "producerMode") {
			mode = contract.BlockFactory
		}
		root0 := prev.GetHeader().GetBlocksRootHash()
		no := prev.BlockNo() + 1
		ts := prev.GetHeader().GetTimestamp() + 1000000000
		stateAfter := func(list []*types.Tx, reward bool) ([]byte, *vnode.Dump, []vnode.Outcome) {
			vb := N.NewVBlock(root0, no, ts, mode)
			for _, tx := range list {
				o := vb.Apply(tx)
				if o.Panic != nil {
					t.Fatalf("executor panicked: %v\n%s", o.Panic, o.Stack)
				}
			}
			r, err := vb.Finish(reward, vnode.KeyN(500).Addr)
			if err != nil {
				t.Fatalf("finish: %v", err)
			}
			d, err := N.DumpAt(r)
			if err != nil {
				t.Fatalf("dump: %v", err)
			}
			return r, d, vb.Outs
		}
		rootPrev, dumpPrev, _ := stateAfter(nil, false)
		if !bytes.Equal(rootPrev, root0) {
			t.Fatalf("an empty block without reward changed the state root")
		}
		var descs []string
		classes := map[string]bool{}
		nontrivial := false
		touchedOK := map[string]bool{} // accounts touched by successful txs so far
		var kept []*types.Tx
		for k := 1; k <= len(txs); k++ {
			tx, sp := txs[k-1], specs[k-1]
			root, dump, outs := stateAfter(txs[:k], false)
			out := outs[k-1]
			kind := out.Kind()
			descs = append(descs, fmt.Sprintf("%s(u%d)=%s", sp.Kind, sp.From, kind))
			classes[kind+":"+strings.SplitN(sp.Kind, "+", 2)[0]] = true
			if kind != "success" && strings.HasPrefix(sp.Kind, "feedeleg") && w.FDBias {
				// why fee-delegated calls of the scene do not succeed (distribution check of the generator)
				why := "run-time failure"
				if out.Err != nil {
					why = out.Err.Error()
					if len(why) > 60 {
						why = why[:60]
					}
				}
				rec.Label("scene feedeleg " + kind + ": " + why)
			}
			diffs := vnode.DiffDumps(dumpPrev, dump)
			sender := types.ToAccountID(tx.GetBody().GetAccount())
			supplyDelta := new(big.Int).Sub(dump.SumBalances(), dumpPrev.SumBalances())
			ctx := func() string {
				var ds []string
				for _, d := range diffs {
					ds = append(ds, d.String())
				}
				return fmt.Sprintf("tx %d of the block: %s nonce=%d type=%v amount=%s payload=%q\nfork version %d, outcomes so far: %s\nstate differences caused by this tx: %s",
					k, sp.Kind, tx.GetBody().GetNonce(), tx.GetBody().GetType(), new(big.Int).SetBytes(tx.GetBody().GetAmount()), string(tx.GetBody().GetPayload()), N.CS.VerifHardfork().Version(no), strings.Join(descs, ", "), strings.Join(ds, "; "))
			}
			switch kind {
			case "rejected":
				if !bytes.Equal(root, rootPrev) || len(diffs) != 0 {
					t.Fatalf("rejected transaction (%v) left residue in the state\n%s", out.Err, ctx())
				}
			case "error":
				fee := new(big.Int).SetBytes(out.Receipt.FeeUsed)
				if supplyDelta.Cmp(new(big.Int).Neg(fee)) != 0 {
					t.Fatalf("failed transaction: total supply changed by %s, fee is %s\n%s", supplyDelta, fee, ctx())
				}
				feeDeleg := tx.GetBody().GetType() == types.TxType_FEEDELEGATION
				for _, d := range diffs {
					isSender := d.ID == sender
					isPayerContract := feeDeleg && d.ID == types.ToAccountID(tx.GetBody().GetRecipient())
					switch {
					case isSender:
						if d.NonceNew != d.NonceOld+1 || d.CodeChanged || d.StorageDiff || d.Created || d.Removed {
							t.Fatalf("failed transaction: sender changed beyond nonce+1 and fee\n%s", ctx())
						}
						wantBal := new(big.Int).Set(d.BalOld)
						if !feeDeleg || isPayerContract {
							wantBal.Sub(wantBal, fee)
						}
						if d.BalNew.Cmp(wantBal) != 0 {
							t.Fatalf("failed transaction: sender balance %s, expected %s (fee %s)\n%s", d.BalNew, wantBal, fee, ctx())
						}
					case isPayerContract:
						if d.NonceNew != d.NonceOld || d.CodeChanged || d.StorageDiff || d.Created || d.Removed || new(big.Int).Sub(d.BalOld, d.BalNew).Cmp(fee) != 0 {
							t.Fatalf("failed fee-delegated transaction: paying contract changed beyond the fee\n%s", ctx())
						}
					default:
						t.Fatalf("failed transaction (ERROR receipt %q) changed an account other than the payer/sender: %s\n%s", out.Receipt.Ret, d, ctx())
					}
				}
				if dump.Nonce(tx.GetBody().GetAccount()) != tx.GetBody().GetNonce() {
					t.Fatalf("failed transaction did not advance the sender nonce\n%s", ctx())
				}
			case "success":
				fee := new(big.Int).SetBytes(out.Receipt.FeeUsed)
				if supplyDelta.Cmp(new(big.Int).Neg(fee)) != 0 {
					t.Fatalf("successful transaction: total supply changed by %s, fee is %s\n%s", supplyDelta, fee, ctx())
				}
				if dump.Nonce(tx.GetBody().GetAccount()) != tx.GetBody().GetNonce() {
					t.Fatalf("successful transaction did not advance the sender nonce\n%s", ctx())
				}
				// exact effect of plain transfers
				if tx.GetBody().GetType() == types.TxType_TRANSFER && len(tx.GetBody().GetRecipient()) == types.AddressLength &&
					dumpPrev.Accounts[types.ToAccountID(tx.GetBody().GetRecipient())] != nil && dumpPrev.Accounts[types.ToAccountID(tx.GetBody().GetRecipient())].State.CodeHash == nil {
					amt := new(big.Int).SetBytes(tx.GetBody().GetAmount())
					rcp := tx.GetBody().GetRecipient()
					if !bytes.Equal(rcp, tx.GetBody().GetAccount()) {
						if got := new(big.Int).Sub(dump.Balance(rcp), dumpPrev.Balance(rcp)); got.Cmp(amt) != 0 {
							t.Fatalf("transfer of %s credited %s to the recipient\n%s", amt, got, ctx())
						}
						if got := new(big.Int).Sub(dumpPrev.Balance(tx.GetBody().GetAccount()), dump.Balance(tx.GetBody().GetAccount())); got.Cmp(new(big.Int).Add(amt, fee)) != 0 {
							t.Fatalf("transfer of %s with fee %s debited %s from the sender\n%s", amt, fee, got, ctx())
						}
					}
					for _, d := range diffs {
						if d.ID != sender && d.ID != types.ToAccountID(rcp) {
							t.Fatalf("plain transfer changed a third account %s\n%s", d, ctx())
						}
					}
				}
			}
			acc := string(tx.GetBody().GetAccount())
			if kind != "success" && (touchedOK[acc] || touchedOK[string(tx.GetBody().GetRecipient())]) {
				nontrivial = true
				classes["failure-after-success-on-same-account"] = true
			}
			if kind == "success" {
				touchedOK[acc] = true
				touchedOK[string(tx.GetBody().GetRecipient())] = true
			}
			if kind != "rejected" {
				kept = append(kept, tx)
			}
			rootPrev, dumpPrev = root, dump
		}
		// rejected transactions are as if never submitted (whole block incl. reward)
		if len(kept) != len(txs) {
			rAll, _, _ := stateAfter(txs, true)
			rKept, _, outs := stateAfter(kept, true)
			for i, o := range outs {
				if o.Kind() == "rejected" {
					t.Fatalf("transaction %d was executed in the full list but is rejected once the rejected transactions are removed: %v\n%s", i, o.Err, strings.Join(descs, ", "))
				}
			}
			if !bytes.Equal(rAll, rKept) {
				t.Fatalf("block state root with the rejected transactions %x differs from the root without them %x\n%s", rAll[:6], rKept[:6], strings.Join(descs, ", "))
			}
			classes["has-rejected"] = true
		}
		var cl []string
		for c := range classes {
			cl = append(cl, c)
		}
		sort.Strings(cl)
		classes[fmt.Sprintf("forkversion=%d", N.CS.VerifHardfork().Version(no))] = true
		rec.Case(strings.Join(cl, ","), fmt.Sprintf("%+v|%d|%s", opts, npre, strings.Join(descs, "|")), nontrivial, func() interface{} {
			return map[string]interface{}{"consensus": opts.Consensus, "public": opts.Public, "hardfork": fmt.Sprintf("%+v", opts.Hardfork), "prefix_blocks": npre, "block": descs}
		})
	})
}
