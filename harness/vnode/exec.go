//go:build verif

package vnode

// Transaction-level driver: executes a list of transactions one by one through the REAL tx
// executor (chain.NewTxExecutor: snapshot, executeTx, rollback on rejection) on a block state
// opened at an arbitrary state root, with an arbitrary ("virtual") block number. Virtual block
// numbers are what makes the 86400-block staking / voting lock periods reachable: the block
// is never connected to the chain DB, only its state is committed to the node's state store.

import (
	"bytes"
	"context"
	"fmt"
	"math/big"
	"runtime"
	"sort"

	"github.com/aergoio/aergo/v2/chain"
	"github.com/aergoio/aergo/v2/contract"
	"github.com/aergoio/aergo/v2/contract/system"
	"github.com/aergoio/aergo/v2/state"
	"github.com/aergoio/aergo/v2/types"
)

type Outcome struct {
	Err     error          // non-nil: rejected (no receipt)
	Receipt *types.Receipt // set when executed (status SUCCESS / CREATED / RECREATED / ERROR)
	Panic   interface{}    // recovered panic of the code under test (C14)
	Stack   string
}

func (o Outcome) Kind() string {
	switch {
	case o.Panic != nil:
		return "panic"
	case o.Err != nil:
		return "rejected"
	case o.Receipt != nil && o.Receipt.Status == "ERROR":
		return "error"
	default:
		return "success"
	}
}

// VBlock is a block under construction on a virtual height.
type VBlock struct {
	N    *Node
	BS   *state.BlockState
	BI   *types.BlockHeaderInfo
	exec chain.TxExecFn
	Outs []Outcome
}

// HeaderInfo builds the header info of a block numbered no (0: parent+1) on top of the state
// root `root`, with the chain id of this node at the fork version of that height.
func (n *Node) HeaderInfo(no uint64, ts int64, prevHash []byte) *types.BlockHeaderInfo {
	gen := n.CS.CDB().GetGenesisInfo()
	hf := n.CS.VerifHardfork()
	v := hf.Version(no)
	gcid, _ := gen.ID.Bytes()
	return &types.BlockHeaderInfo{No: no, Ts: ts, PrevBlockHash: prevHash, ChainId: types.MakeChainId(gcid, v), ForkVersion: v}
}

// NewVBlock opens a block state at root for block number no. mode is contract.ChainService
// (validator) or contract.BlockFactory (producer).
func (n *Node) NewVBlock(root []byte, no uint64, ts int64, mode int) *VBlock {
	prevHash := make([]byte, 32)
	prevHash[0] = byte(no)
	bi := n.HeaderInfo(no, ts, prevHash)
	bs := n.CS.SDB().NewBlockState(root, state.SetPrevBlockHash(prevHash))
	bs.SetGasPrice(system.GetGasPrice())
	bs.Receipts().SetHardFork(n.CS.VerifHardfork(), no)
	return &VBlock{N: n, BS: bs, BI: bi,
		exec: chain.NewTxExecutor(context.Background(), nil, n.CS.CDB().(contract.ChainAccessor), bi, mode)}
}

// Apply executes one transaction; panics of the code under test are recovered and reported.
func (vb *VBlock) Apply(tx *types.Tx) (out Outcome) {
	nrec := len(vb.BS.Receipts().Get())
	defer func() {
		if r := recover(); r != nil {
			out = Outcome{Panic: r, Stack: stackTrace()}
		}
		vb.Outs = append(vb.Outs, out)
	}()
	err := vb.exec(vb.BS, types.NewTransaction(tx))
	if err != nil {
		return Outcome{Err: err}
	}
	rs := vb.BS.Receipts().Get()
	if len(rs) != nrec+1 {
		return Outcome{Err: fmt.Errorf("harness: executed transaction produced %d receipts", len(rs)-nrec)}
	}
	return Outcome{Receipt: rs[nrec]}
}

// Finish pays the block reward (when withReward), updates and commits the state to the node's
// state store (not to the chain) and returns the new root.
func (vb *VBlock) Finish(withReward bool, coinbase []byte) ([]byte, error) {
	if withReward {
		if err := chain.SendBlockReward(vb.BS, coinbase); err != nil {
			return nil, err
		}
	}
	if err := vb.BS.Update(); err != nil {
		return nil, err
	}
	if err := vb.BS.Commit(); err != nil {
		return nil, err
	}
	return vb.BS.GetRoot(), nil
}

// ChainIDHash is the chain-id hash transactions of this block must carry.
func (vb *VBlock) ChainIDHash() []byte { return vb.BI.ChainIdHash() }

func stackTrace() string {
	b := make([]byte, 1<<14)
	n := runtime.Stack(b, false)
	return string(b[:n])
}

// ---- dump comparison ------------------------------------------------------------------------

type AccDiff struct {
	ID                       types.AccountID
	Created, Removed         bool
	NonceOld, NonceNew       uint64
	BalOld, BalNew           *big.Int
	CodeChanged, StorageDiff bool
}

// DiffDumps lists the accounts that differ between two full dumps.
func DiffDumps(a, b *Dump) []AccDiff {
	var out []AccDiff
	ids := map[types.AccountID]bool{}
	for id := range a.Accounts {
		ids[id] = true
	}
	for id := range b.Accounts {
		ids[id] = true
	}
	var sorted []string
	for id := range ids {
		sorted = append(sorted, string(id[:]))
	}
	sort.Strings(sorted)
	for _, s := range sorted {
		var id types.AccountID
		copy(id[:], s)
		x, y := a.Accounts[id], b.Accounts[id]
		d := AccDiff{ID: id, BalOld: new(big.Int), BalNew: new(big.Int)}
		if x != nil {
			d.NonceOld, d.BalOld = x.State.Nonce, new(big.Int).SetBytes(x.State.Balance)
		}
		if y != nil {
			d.NonceNew, d.BalNew = y.State.Nonce, new(big.Int).SetBytes(y.State.Balance)
		}
		switch {
		case x == nil:
			d.Created = true
		case y == nil:
			d.Removed = true
		default:
			d.CodeChanged = !bytes.Equal(x.State.CodeHash, y.State.CodeHash)
			d.StorageDiff = !bytes.Equal(x.State.StorageRoot, y.State.StorageRoot) || x.State.SqlRecoveryPoint != y.State.SqlRecoveryPoint
			if !d.StorageDiff && len(x.Storage) != len(y.Storage) {
				d.StorageDiff = true
			}
			if d.NonceOld == d.NonceNew && d.BalOld.Cmp(d.BalNew) == 0 && !d.CodeChanged && !d.StorageDiff {
				continue
			}
		}
		out = append(out, d)
	}
	return out
}

func (d AccDiff) String() string {
	return fmt.Sprintf("%x{created=%v removed=%v nonce %d->%d balance %s->%s code=%v storage=%v}", d.ID[:6], d.Created, d.Removed, d.NonceOld, d.NonceNew, d.BalOld, d.BalNew, d.CodeChanged, d.StorageDiff)
}
