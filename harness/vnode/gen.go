//go:build verif

package vnode

import (
	"bytes"
	"encoding/json"
	"fmt"
	"math/big"

	"github.com/aergoio/aergo/v2/config"
	"github.com/aergoio/aergo/v2/contract"
	protoenc "github.com/aergoio/aergo/v2/internal/enc/proto"
	"github.com/aergoio/aergo/v2/types"
	"github.com/btcsuite/btcd/btcec/v2"
	crypto "github.com/libp2p/go-libp2p/core/crypto"
	"github.com/libp2p/go-libp2p/core/peer"
	"pgregory.net/rapid"
)

func protoMarshal(b *types.Block) ([]byte, error)    { return protoenc.Encode(b) }
func protoUnmarshal(bz []byte, b *types.Block) error { return protoenc.Decode(bz, b) }

// ---- block-producer identities ---------------------------------------------------------------

type BPKey struct {
	Priv crypto.PrivKey
	ID   peer.ID
}

var bpCache = map[int]*BPKey{}

func BPN(i int) *BPKey {
	keyMu.Lock()
	defer keyMu.Unlock()
	if k, ok := bpCache[i]; ok {
		return k
	}
	ak := func() *btcec.PrivateKey {
		h := [32]byte{}
		copy(h[:], []byte(fmt.Sprintf("verif-bp-key-%02d-padding-padding!", i)))
		p, _ := btcec.PrivKeyFromBytes(h[:])
		return p
	}()
	priv, err := crypto.UnmarshalSecp256k1PrivateKey(ak.Serialize())
	if err != nil {
		panic(err)
	}
	id, err := peer.IDFromPrivateKey(priv)
	if err != nil {
		panic(err)
	}
	k := &BPKey{Priv: priv, ID: id}
	bpCache[i] = k
	return k
}

func (k *BPKey) Enc() string { return types.IDB58Encode(k.ID) }

var twinCache = map[int]*BPKey{}

// BPTwin is the producer identity whose private key is the negation of BPN(i)'s: the two public keys have the same
// X coordinate and differ only in the parity byte of their compressed form, so the two 39-byte peer ids differ in
// exactly one byte (index 6).
func BPTwin(i int) *BPKey {
	base := BPN(i)
	keyMu.Lock()
	defer keyMu.Unlock()
	if k, ok := twinCache[i]; ok {
		return k
	}
	raw, err := base.Priv.Raw()
	if err != nil {
		panic(err)
	}
	p, _ := btcec.PrivKeyFromBytes(raw)
	var neg btcec.ModNScalar
	neg.Set(&p.Key)
	neg.Negate()
	nb := neg.Bytes()
	priv, err := crypto.UnmarshalSecp256k1PrivateKey(nb[:])
	if err != nil {
		panic(err)
	}
	id, err := peer.IDFromPrivateKey(priv)
	if err != nil {
		panic(err)
	}
	k := &BPKey{Priv: priv, ID: id}
	twinCache[i] = k
	return k
}

// ---- world specification ----------------------------------------------------------------------

var (
	Aergo      = new(big.Int).Exp(big.NewInt(10), big.NewInt(18), nil)
	StakeMin   = new(big.Int).Mul(big.NewInt(10000), Aergo)
	InitialBal = new(big.Int).Mul(big.NewInt(1000000), Aergo)
	HugeBal    = new(big.Int).Mul(big.NewInt(450000000), Aergo) // > 2^88 aer
)

type WorldOpts struct {
	Consensus string // "dpos" or "sbp" or "raft"
	Public    bool
	NUsers    int
	NBPs      int
	Rich      bool // fund the users with HugeBal instead of InitialBal
	Hardfork  config.HardforkConfig
	Magic     string
	FundVault bool // give the reward vault (aergo.vault) an initial balance (DPoS voting reward)
}

func NewSpec(o WorldOpts) *Spec {
	g := &types.Genesis{
		ID:        types.ChainID{Magic: o.Magic, PublicNet: o.Public, Consensus: o.Consensus},
		Timestamp: 1,
		Balance:   map[string]string{},
	}
	for i := 0; i < o.NUsers; i++ {
		if o.Rich {
			g.Balance[KeyN(i).Enc()] = HugeBal.String()
		} else {
			g.Balance[KeyN(i).Enc()] = InitialBal.String()
		}
	}
	if o.FundVault {
		g.Balance[types.AergoVault] = new(big.Int).Mul(big.NewInt(1000), Aergo).String()
	}
	if o.Consensus == "dpos" {
		for i := 0; i < o.NBPs; i++ {
			g.BPs = append(g.BPs, BPN(i).Enc())
		}
	}
	return &Spec{Genesis: g, Hardfork: o.Hardfork}
}

// DrawHardfork draws fork heights V2<=V3<=V4<=V5 so that several versions occur within maxH blocks.
func DrawHardfork(t *rapid.T, maxH int) config.HardforkConfig {
	mode := rapid.IntRange(0, 4).Draw(t, "hfmode")
	switch mode {
	case 0:
		return config.HardforkConfig{V2: 0, V3: 0, V4: 0, V5: 0}
	case 1:
		return config.HardforkConfig{V2: 1 << 40, V3: 1 << 41, V4: 1 << 42, V5: 1 << 43} // version 0 forever
	}
	hs := make([]uint64, 4)
	prev := uint64(0)
	for i := range hs {
		prev += uint64(rapid.IntRange(0, maxH/2+1).Draw(t, fmt.Sprintf("hf%d", i)))
		hs[i] = prev
	}
	return config.HardforkConfig{V2: hs[0], V3: hs[1], V4: hs[2], V5: hs[3]}
}

// ---- transaction construction -------------------------------------------------------------------

type TxSpec struct {
	Kind      string
	From      int // key index of the sender
	Nonce     uint64
	Recipient []byte
	Amount    *big.Int
	Payload   []byte
	Type      types.TxType
	GasLimit  uint64
	Desc      string
}

func (s *TxSpec) Build(chainIDHash []byte) *types.Tx {
	k := KeyN(s.From)
	amt := s.Amount
	if amt == nil {
		amt = new(big.Int)
	}
	tx := &types.Tx{Body: &types.TxBody{Nonce: s.Nonce, Account: k.Addr, Recipient: s.Recipient, Amount: amt.Bytes(), Payload: s.Payload,
		GasLimit: s.GasLimit, Type: s.Type, ChainIdHash: chainIDHash}}
	SignTx(tx, k)
	return tx
}

func callInfo(name string, args ...interface{}) []byte {
	if args == nil {
		args = []interface{}{}
	}
	b, _ := json.Marshal(map[string]interface{}{"Name": name, "Args": args})
	return b
}

// CallInfo renders the payload of a governance call.
func CallInfo(name string, args ...interface{}) []byte { return callInfo(name, args...) }

// StubProgram renders a program for the stub VM.
func StubProgram(ops ...[]string) []byte {
	b, _ := json.Marshal(map[string]interface{}{"ops": ops})
	return b
}

// World is the generator's view of the chain tip it is producing on: who exists, which stub
// contracts are deployed, which names exist. It is refreshed from the real state (nonces) before
// every block so that it cannot drift.
type World struct {
	NUsers    int
	NBPs      int
	Public    bool
	DPoS      bool
	Contracts [][]byte // deployed stub contracts (known to the generator)
	Names     []string
	NameOwner map[string]int // name -> key index of the creator
	Staked    map[int]bool   // key index -> has staked (learned from receipts)
	FreshSeq  int
	GovBias   bool // prefer staking / voting transactions (several voters on the same tallies)
	FDBias    bool // prefer fee-delegated calls that carry an amount, burn gas and fail (see SetupFeeDelegationScene)
	TieBias   bool // equal stakes, and votes on one issue for values that are one number spelt differently: tied candidates
}

// PreferredSender biases the sender towards accounts for which the kind can succeed.
func (w *World) PreferredSender(t *rapid.T, kind string) (int, bool) {
	if w.FDBias && w.NUsers > 1 && rapid.IntRange(0, 2).Draw(t, "fdSender") > 0 {
		return 1, true // several transactions of one sender in the block
	}
	switch kind {
	case "votebp", "votedao", "unstake":
		var st []int
		for i := 0; i < w.NUsers; i++ {
			if w.Staked[i] {
				st = append(st, i)
			}
		}
		if len(st) > 0 && rapid.IntRange(0, 9).Draw(t, "useStaker") > 0 {
			return rapid.SampledFrom(st).Draw(t, "staker"), true
		}
	}
	return 0, false
}

var nameAlphabet = "abcdefghijklmnopqrstuvwxyz1234567890"

func (w *World) DrawName(t *rapid.T) string {
	if len(w.Names) > 0 && rapid.Bool().Draw(t, "existingName") {
		return rapid.SampledFrom(w.Names).Draw(t, "name")
	}
	b := make([]byte, types.NameLength)
	x := rapid.IntRange(0, 5).Draw(t, "nameSeed")
	for i := range b {
		b[i] = nameAlphabet[(x*7+i)%len(nameAlphabet)]
	}
	return string(b)
}

// DrawTx draws one transaction spec for sender `from` with expected nonce `nonce` and balance bal.
// mode: "valid-biased" produces mostly transactions that succeed; faults are injected with the
// drawn fault kind.
func (w *World) DrawTx(t *rapid.T, from int, nonce uint64, bal *big.Int) *TxSpec {
	return w.DrawTxKind(t, w.DrawKind(t), from, nonce, bal)
}

func (w *World) DrawKind(t *rapid.T) string {
	kinds := []string{"transfer", "transfer", "transfer-new", "normal", "name-create", "name-update", "name-setowner", "deploy", "call", "call-fail", "call-sysfail", "feedeleg", "transfer-to-contract", "transfer-to-system", "transfer-odd-recipient"}
	if w.DPoS {
		kinds = append(kinds, "stake", "stake", "unstake", "votebp", "votebp", "votedao")
	}
	if !w.Public {
		kinds = append(kinds, "enterprise", "enterprise-bad")
	}
	if w.GovBias && w.DPoS {
		kinds = append(kinds, "stake", "stake", "stake", "votebp", "votebp", "votebp", "votebp", "votedao", "votedao", "unstake")
	}
	if w.FDBias && len(w.Contracts) > 0 && rapid.Bool().Draw(t, "fdKind") {
		return rapid.SampledFrom([]string{"feedeleg", "feedeleg", "feedeleg", "transfer", "transfer-to-contract"}).Draw(t, "kind")
	}
	if w.TieBias && w.DPoS && rapid.Bool().Draw(t, "tieKind") {
		// many voters with a stake voting on one issue: what makes candidates tie
		return rapid.SampledFrom([]string{"stake", "stake", "votedao", "votedao", "votedao", "votebp"}).Draw(t, "kind")
	}
	return rapid.SampledFrom(kinds).Draw(t, "kind")
}

func (w *World) DrawTxKind(t *rapid.T, kind string, from int, nonce uint64, bal *big.Int) *TxSpec {
	s := &TxSpec{Kind: kind, From: from, Nonce: nonce, Amount: new(big.Int)}
	small := func() *big.Int {
		return new(big.Int).Mul(big.NewInt(int64(rapid.IntRange(0, 50).Draw(t, "amt"))), Aergo)
	}
	switch kind {
	case "transfer":
		s.Type = types.TxType_TRANSFER
		s.Recipient = KeyN(rapid.IntRange(0, w.NUsers-1).Draw(t, "to")).Addr
		s.Amount = small()
	case "transfer-new":
		s.Type = types.TxType_TRANSFER
		w.FreshSeq++
		s.Recipient = KeyN(1000 + rapid.IntRange(0, 3).Draw(t, "fresh")).Addr
		s.Amount = small()
	case "transfer-odd-recipient":
		// any 33 bytes are a valid recipient; some look like the padded form in which short account ids (names,
		// special accounts) are written into receipts
		s.Type = types.TxType_TRANSFER
		r := bytes.Repeat([]byte{byte(rapid.IntRange(1, 255).Draw(t, "fill"))}, types.AddressLength)
		r[0] = byte(rapid.SampledFrom([]int{0x80, 0x80, 0x02, 0x00, 0xff}).Draw(t, "first"))
		if rapid.Bool().Draw(t, "withZero") {
			r[rapid.IntRange(1, types.AddressLength-1).Draw(t, "zeroAt")] = 0
		}
		s.Recipient = r
		s.Amount = small()
	case "transfer-to-system":
		s.Type = types.TxType_TRANSFER
		s.Recipient = []byte(rapid.SampledFrom([]string{types.AergoSystem, types.AergoName, types.AergoVault, types.AergoEnterprise}).Draw(t, "sysacc"))
		s.Amount = small()
	case "transfer-to-contract":
		s.Type = rapid.SampledFrom([]types.TxType{types.TxType_TRANSFER, types.TxType_NORMAL}).Draw(t, "ttype")
		if len(w.Contracts) == 0 {
			s.Recipient = KeyN(0).Addr
		} else {
			s.Recipient = rapid.SampledFrom(w.Contracts).Draw(t, "ctr")
		}
		s.Amount = small()
		if rapid.IntRange(0, 2).Draw(t, "tinyFunding") == 0 {
			// a contract that owns about as much as one fee
			s.Amount = new(big.Int).Mul(big.NewInt(int64(rapid.SampledFrom([]int{1, 5, 20, 100}).Draw(t, "tiny"))), big.NewInt(1e15))
		}
		if rapid.Bool().Draw(t, "withPayload") {
			s.Payload = []byte("x")
		}
	case "normal":
		s.Type = types.TxType_NORMAL
		s.Recipient = KeyN(rapid.IntRange(0, w.NUsers-1).Draw(t, "to")).Addr
		s.Amount = small()
		s.Payload = rapid.SliceOfN(rapid.Byte(), 0, 300).Draw(t, "payload")
	case "stake":
		s.Type = types.TxType_GOVERNANCE
		s.Recipient = []byte(types.AergoSystem)
		s.Payload = callInfo("v1stake")
		s.Amount = new(big.Int).Add(StakeMin, new(big.Int).Mul(big.NewInt(int64(rapid.IntRange(-1, 3).Draw(t, "stakeExtra"))), Aergo))
		if w.TieBias && rapid.IntRange(0, 3).Draw(t, "sameStake") > 0 {
			s.Amount = new(big.Int).Set(StakeMin)
		}
	case "unstake":
		s.Type = types.TxType_GOVERNANCE
		s.Recipient = []byte(types.AergoSystem)
		s.Payload = callInfo("v1unstake")
		s.Amount = new(big.Int).Mul(big.NewInt(int64(rapid.IntRange(0, 10001).Draw(t, "unstakeAmt"))), Aergo)
	case "votebp":
		s.Type = types.TxType_GOVERNANCE
		s.Recipient = []byte(types.AergoSystem)
		n := rapid.IntRange(0, 3).Draw(t, "ncand")
		var args []interface{}
		seen := map[int]bool{}
		for i := 0; i < n; i++ {
			c := rapid.IntRange(0, w.NBPs+1).Draw(t, "cand")
			if seen[c] {
				continue
			}
			seen[c] = true
			args = append(args, BPN(c).Enc())
			if w.TieBias && rapid.Bool().Draw(t, "withTwin") {
				// two candidates that only differ in the parity byte of the key, voted for with the same power
				args = append(args, BPTwin(c).Enc())
			}
		}
		s.Payload = callInfo("v1voteBP", args...)
	case "votedao":
		s.Type = types.TxType_GOVERNANCE
		s.Recipient = []byte(types.AergoSystem)
		// skewed towards one issue and towards values that are the same number spelt differently: distinct
		// candidates of one tally that tie whenever their voters' stakes are equal
		id := rapid.SampledFrom([]string{"BPCOUNT", "BPCOUNT", "BPCOUNT", "STAKINGMIN", "GASPRICE", "NAMEPRICE", "bpcount", "NOSUCH"}).Draw(t, "daoid")
		val := rapid.SampledFrom([]string{"3", "13", "013", "03", "+13", "13 ", "1000000000000000000", "50000000000", "0", "x"}).Draw(t, "daoval")
		if w.TieBias && rapid.IntRange(0, 3).Draw(t, "tieVote") > 0 {
			id = "BPCOUNT"
			val = rapid.SampledFrom([]string{"13", "013", "+13", "0013"}).Draw(t, "tieVal")
		}
		s.Payload = callInfo("v1voteDAO", id, val)
	case "name-create":
		s.Type = types.TxType_GOVERNANCE
		s.Recipient = []byte(types.AergoName)
		nm := w.DrawName(t)
		s.Payload = callInfo("v1createName", nm)
		s.Amount = new(big.Int).Mul(big.NewInt(int64(rapid.SampledFrom([]int{1, 1, 1, 0, 2}).Draw(t, "nameAmt"))), Aergo)
		s.Desc = nm
	case "name-update":
		s.Type = types.TxType_GOVERNANCE
		s.Recipient = []byte(types.AergoName)
		nm := w.DrawName(t)
		// prefer a name this sender created
		var mine []string
		for _, x := range w.Names {
			if w.NameOwner[x] == from {
				mine = append(mine, x)
			}
		}
		if len(mine) > 0 && rapid.IntRange(0, 4).Draw(t, "useOwnName") > 0 {
			nm = rapid.SampledFrom(mine).Draw(t, "ownName")
		}
		s.Payload = callInfo("v1updateName", nm, KeyN(rapid.IntRange(0, w.NUsers-1).Draw(t, "newOwner")).Enc())
		s.Amount = new(big.Int).Mul(big.NewInt(int64(rapid.SampledFrom([]int{1, 1, 1, 0, 2}).Draw(t, "nameAmt"))), Aergo)
		s.Desc = nm
	case "name-setowner":
		s.Type = types.TxType_GOVERNANCE
		s.Recipient = []byte(types.AergoName)
		owner := KeyN(rapid.IntRange(0, w.NUsers-1).Draw(t, "ctrOwner")).Enc()
		if rapid.IntRange(0, 5).Draw(t, "specialOwner") == 0 {
			// names of system accounts decode as addresses too
			owner = rapid.SampledFrom([]string{types.AergoName, types.AergoSystem, types.AergoVault, types.AergoEnterprise}).Draw(t, "ownerName")
			s.Desc = "owner=" + owner
		}
		s.Payload = callInfo("v1setOwner", owner)
	case "enterprise":
		s.Type = types.TxType_GOVERNANCE
		s.Recipient = []byte(types.AergoEnterprise)
		op := rapid.SampledFrom([]string{"appendAdmin", "removeAdmin", "setConf", "appendConf", "enableConf"}).Draw(t, "entop")
		switch op {
		case "appendAdmin", "removeAdmin":
			s.Payload = callInfo(op, KeyN(rapid.IntRange(0, w.NUsers-1).Draw(t, "admin")).Enc())
		case "setConf":
			s.Payload = callInfo(op, "rpcpermissions", "dGVzdA==:RWS")
		case "appendConf":
			s.Payload = callInfo(op, "accountwhite", KeyN(rapid.IntRange(0, w.NUsers-1).Draw(t, "white")).Enc())
		case "enableConf":
			s.Payload = callInfo(op, "rpcpermissions", rapid.Bool().Draw(t, "on"))
		}
	case "enterprise-bad":
		s.Type = types.TxType_GOVERNANCE
		s.Recipient = []byte(types.AergoEnterprise)
		s.Payload = callInfo(rapid.SampledFrom([]string{"appendAdmin", "nosuch", "setConf"}).Draw(t, "entop"), "???")
	case "deploy":
		s.Type = types.TxType_DEPLOY
		s.Payload = []byte(fmt.Sprintf("stub-code-%d", rapid.IntRange(0, 3).Draw(t, "code")))
		s.Amount = new(big.Int)
		s.GasLimit = uint64(rapid.SampledFrom([]int{0, 100000, 5000000}).Draw(t, "gas"))
	case "call", "call-fail", "call-sysfail", "feedeleg":
		// call-sysfail: the VM dies with a system error after having written contract state: the transaction is
		// rejected as a whole (a producer leaves it out; a block that contains it is invalid)
		s.Type = types.TxType_CALL
		if kind == "feedeleg" || kind == "call-sysfail" && rapid.IntRange(0, 3).Draw(t, "sysfailFD") == 0 {
			s.Type = types.TxType_FEEDELEGATION
		}
		if len(w.Contracts) == 0 {
			s.Recipient = KeyN(0).Addr // not a contract
		} else {
			s.Recipient = rapid.SampledFrom(w.Contracts).Draw(t, "ctr")
		}
		var ops [][]string
		n := rapid.IntRange(1, 4).Draw(t, "nops")
		for i := 0; i < n; i++ {
			switch rapid.IntRange(0, 5).Draw(t, "op") {
			case 5:
				// expensive code: the fee can exceed what a poorly funded (fee-delegating) contract owns
				ops = append(ops, []string{"burn", rapid.SampledFrom([]string{"20000", "200000", "2000000"}).Draw(t, "burn")})
			case 0, 1:
				ops = append(ops, []string{"set", rapid.SampledFrom([]string{"a", "b", "c", "_fd"}).Draw(t, "k"), rapid.SampledFrom([]string{"1", "2", ""}).Draw(t, "v")})
			case 2:
				ops = append(ops, []string{"del", rapid.SampledFrom([]string{"a", "b", "c", "_fd"}).Draw(t, "k")})
			case 3:
				ops = append(ops, []string{"event", "e"})
			default:
				if kind == "call-fail" {
					ops = append(ops, []string{"fail", "boom"})
				} else {
					ops = append(ops, []string{"set", "z", "9"})
				}
			}
		}
		if kind == "call-fail" && rapid.Bool().Draw(t, "failAtEnd") {
			ops = append(ops, []string{"fail", "boom"})
		}
		if kind == "feedeleg" && w.FDBias {
			if rapid.Bool().Draw(t, "fdBurn") {
				ops = append(ops, []string{"burn", rapid.SampledFrom([]string{"20000", "200000", "2000000"}).Draw(t, "burn")})
			}
		}
		if kind == "feedeleg" && rapid.IntRange(0, 2).Draw(t, "fdFails") == 0 {
			// a fee-delegated call that fails at run time: the contract pays the fee of the failure
			ops = append(ops, []string{"fail", "boom"})
		}
		if kind == "call-sysfail" {
			ops = append(ops, []string{"sysfail"})
		}
		s.Payload = StubProgram(ops...)
		s.Amount = new(big.Int).Mul(big.NewInt(int64(rapid.IntRange(0, 2).Draw(t, "callAmt"))), Aergo)
		s.GasLimit = uint64(rapid.SampledFrom([]int{0, 1500, 100000, 5000000}).Draw(t, "gas"))
		if kind == "feedeleg" && w.FDBias && rapid.Bool().Draw(t, "fdNoLimit") {
			s.GasLimit = 0
			if s.Amount.Sign() == 0 {
				s.Amount = new(big.Int).Set(Aergo)
			}
		}
	}
	// fault injection on otherwise plausible transactions
	switch rapid.IntRange(0, 19).Draw(t, "fault") {
	case 0:
		s.Nonce = nonce + uint64(rapid.IntRange(1, 3).Draw(t, "nonceGap"))
		s.Kind += "+nonce-high"
	case 1:
		if nonce > 1 {
			s.Nonce = nonce - 1
			s.Kind += "+nonce-low"
		}
	case 2:
		s.Amount = new(big.Int).Add(bal, big.NewInt(int64(rapid.IntRange(0, 1).Draw(t, "over"))))
		s.Kind += "+amount>=balance"
	}
	return s
}

// DeployedAddress is the address a DEPLOY transaction of (sender, nonce) creates.
func DeployedAddress(sender []byte, nonce uint64) []byte {
	return contract.CreateContractID(sender, nonce)
}
