//go:build verif

package vnode

import (
	"fmt"
	"math/big"

	"github.com/aergoio/aergo/v2/types"
	"pgregory.net/rapid"
)

// DrawCandidates draws a candidate transaction list for the block after prev, with nonces and
// balances read from the real state at prev's root.
func (n *Node) DrawCandidates(t *rapid.T, w *World, prev *types.Block, maxTx int) ([]*types.Tx, []*TxSpec, error) {
	d, err := n.DumpAt(prev.GetHeader().GetBlocksRootHash())
	if err != nil {
		return nil, nil, err
	}
	cidHash := n.ChainIDHashFor(prev)
	ntx := rapid.IntRange(0, maxTx).Draw(t, "ntx")
	next := map[int]uint64{}
	var txs []*types.Tx
	var specs []*TxSpec
	for i := 0; i < ntx; i++ {
		kind := w.DrawKind(t)
		from, ok := w.PreferredSender(t, kind)
		if !ok {
			from = rapid.IntRange(0, w.NUsers-1).Draw(t, "from")
		}
		if _, ok := next[from]; !ok {
			next[from] = d.Nonce(KeyN(from).Addr) + 1
		}
		s := w.DrawTxKind(t, kind, from, next[from], d.Balance(KeyN(from).Addr))
		if s.Nonce == next[from] {
			next[from]++ // optimistic: if the tx is skipped later ones of this sender are skipped too
		}
		txs = append(txs, s.Build(cidHash))
		specs = append(specs, s)
	}
	return txs, specs, nil
}

// Learn updates the generator's world from the receipts of a connected block.
func (w *World) Learn(p *Produced, specs []*TxSpec) {
	if w.NameOwner == nil {
		w.NameOwner = map[string]int{}
	}
	if w.Staked == nil {
		w.Staked = map[int]bool{}
	}
	senderIdx := func(addr []byte) int {
		for i := 0; i < w.NUsers; i++ {
			if string(KeyN(i).Addr) == string(addr) {
				return i
			}
		}
		return -1
	}
	rs := p.BState.Receipts().Get()
	for i, tx := range p.Block.GetBody().GetTxs() {
		if i >= len(rs) {
			break
		}
		r := rs[i]
		if tx.GetBody().GetType() == types.TxType_GOVERNANCE && string(tx.GetBody().GetRecipient()) == types.AergoSystem && r.Status == "SUCCESS" {
			for _, e := range r.Events {
				if e.EventName == "stake" {
					w.Staked[senderIdx(tx.GetBody().GetAccount())] = true
				}
			}
		}
		if r.Status == "CREATED" {
			w.Contracts = append(w.Contracts, append([]byte{}, r.ContractAddress...))
		}
		if tx.GetBody().GetType() == types.TxType_GOVERNANCE && string(tx.GetBody().GetRecipient()) == types.AergoName && r.Status == "SUCCESS" {
			for _, e := range r.Events {
				if e.EventName == "create name" {
					var nm string
					fmt.Sscanf(e.JsonArgs, `["%12s`, &nm)
					if len(nm) >= types.NameLength {
						w.Names = append(w.Names, nm[:types.NameLength])
						w.NameOwner[nm[:types.NameLength]] = senderIdx(tx.GetBody().GetAccount())
					}
				}
			}
		}
	}
}

// FeesOf sums the FeeUsed of a receipt list.
func FeesOf(rs []*types.Receipt) *big.Int {
	s := new(big.Int)
	for _, r := range rs {
		s.Add(s, new(big.Int).SetBytes(r.FeeUsed))
	}
	return s
}

// SetupFeeDelegationScene connects two blocks on the node: user 0 deploys a contract; then user 0 makes it accept fee
// delegation (the stub VM's "_fd" switch) and user 1 funds it with `fund` aer — typically about one fee, so that
// what the contract owns lies between the base fee of a call and the fee of an expensive one. Returns the tip it reached; with an error the scene is incomplete (the caller carries on from that tip without it).
func (n *Node) SetupFeeDelegationScene(w *World, prev *types.Block, fund *big.Int) (*types.Block, error) {
	n.SwitchTo()
	step := func(prev *types.Block, specs []*TxSpec) (*types.Block, error) {
		cid := n.ChainIDHashFor(prev)
		var txs []*types.Tx
		for _, s := range specs {
			txs = append(txs, s.Build(cid))
		}
		p, err := n.Produce(prev, prev.GetHeader().GetTimestamp()+1000000000, txs, nil)
		if err != nil {
			return nil, err
		}
		if len(p.Included) != len(txs) {
			return nil, fmt.Errorf("scene: %d of %d transactions were not included", len(txs)-len(p.Included), len(txs))
		}
		if err := n.AddOwn(p); err != nil {
			return nil, err
		}
		w.Learn(p, specs)
		return p.Block, nil
	}
	d, err := n.DumpAt(prev.GetHeader().GetBlocksRootHash())
	if err != nil {
		return nil, err
	}
	n0, n1 := d.Nonce(KeyN(0).Addr), d.Nonce(KeyN(1).Addr)
	before := len(w.Contracts)
	b1, err := step(prev, []*TxSpec{{Kind: "deploy", From: 0, Nonce: n0 + 1, Type: types.TxType_DEPLOY, Payload: []byte("stub-code-fd"), Amount: new(big.Int)}})
	if err != nil {
		return prev, err // nothing was connected (the history so far may not allow the scene: no funds, deployment restricted)
	}
	if len(w.Contracts) != before+1 {
		return b1, fmt.Errorf("scene: the deployment did not create a contract")
	}
	ctr := w.Contracts[len(w.Contracts)-1]
	b2, err := step(b1, []*TxSpec{
		{Kind: "call", From: 0, Nonce: n0 + 2, Type: types.TxType_CALL, Recipient: ctr, Amount: new(big.Int), Payload: StubProgram([]string{"set", "_fd", "1"})},
		{Kind: "transfer-to-contract", From: 1, Nonce: n1 + 1, Type: types.TxType_TRANSFER, Recipient: ctr, Amount: fund},
	})
	if err != nil {
		return b1, err
	}
	return b2, nil
}
