//go:build verif

package vnode

import (
	"fmt"
	"math/big"

	"github.com/aergoio/aergo/v2/types"
	"pgregory.net/rapid"
)

// DrawCandidates draws a candidate transaction list for the block after prev, with nonces and
// balances read from the real state at prev's root.
func (n *Node) DrawCandidates(t *rapid.T, w *World, prev *types.Block, maxTx int) ([]*types.Tx, []*TxSpec, error) {
	d, err := n.DumpAt(prev.GetHeader().GetBlocksRootHash())
	if err != nil {
		return nil, nil, err
	}
	cidHash := n.ChainIDHashFor(prev)
	ntx := rapid.IntRange(0, maxTx).Draw(t, "ntx")
	next := map[int]uint64{}
	var txs []*types.Tx
	var specs []*TxSpec
	for i := 0; i < ntx; i++ {
		kind := w.DrawKind(t)
		from, ok := w.PreferredSender(t, kind)
		if !ok {
			from = rapid.IntRange(0, w.NUsers-1).Draw(t, "from")
		}
		if _, ok := next[from]; !ok {
			next[from] = d.Nonce(KeyN(from).Addr) + 1
		}
		s := w.DrawTxKind(t, kind, from, next[from], d.Balance(KeyN(from).Addr))
		if s.Nonce == next[from] {
			next[from]++ // optimistic: if the tx is skipped later ones of this sender are skipped too
		}
		txs = append(txs, s.Build(cidHash))
		specs = append(specs, s)
	}
	return txs, specs, nil
}

// Learn updates the generator's world from the receipts of a connected block.
func (w *World) Learn(p *Produced, specs []*TxSpec) {
	if w.NameOwner == nil {
		w.NameOwner = map[string]int{}
	}
	if w.Staked == nil {
		w.Staked = map[int]bool{}
	}
	senderIdx := func(addr []byte) int {
		for i := 0; i < w.NUsers; i++ {
			if string(KeyN(i).Addr) == string(addr) {
				return i
			}
		}
		return -1
	}
	rs := p.BState.Receipts().Get()
	for i, tx := range p.Block.GetBody().GetTxs() {
		if i >= len(rs) {
			break
		}
		r := rs[i]
		if tx.GetBody().GetType() == types.TxType_GOVERNANCE && string(tx.GetBody().GetRecipient()) == types.AergoSystem && r.Status == "SUCCESS" {
			for _, e := range r.Events {
				if e.EventName == "stake" {
					w.Staked[senderIdx(tx.GetBody().GetAccount())] = true
				}
			}
		}
		if r.Status == "CREATED" {
			w.Contracts = append(w.Contracts, append([]byte{}, r.ContractAddress...))
		}
		if tx.GetBody().GetType() == types.TxType_GOVERNANCE && string(tx.GetBody().GetRecipient()) == types.AergoName && r.Status == "SUCCESS" {
			for _, e := range r.Events {
				if e.EventName == "create name" {
					var nm string
					fmt.Sscanf(e.JsonArgs, `["%12s`, &nm)
					if len(nm) >= types.NameLength {
						w.Names = append(w.Names, nm[:types.NameLength])
						w.NameOwner[nm[:types.NameLength]] = senderIdx(tx.GetBody().GetAccount())
					}
				}
			}
		}
	}
}

// FeesOf sums the FeeUsed of a receipt list.
func FeesOf(rs []*types.Receipt) *big.Int {
	s := new(big.Int)
	for _, r := range rs {
		s.Add(s, new(big.Int).SetBytes(r.FeeUsed))
	}
	return s
}
