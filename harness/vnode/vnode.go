//go:build verif

// Package vnode is the simulated-node fixture of the verification harness: real
// chain.ChainService instances on memorydb directories, a recording component hub, the
// real block-producer path (consensus/chain.BlockGenerator + chain.NewTxExecutor) and the
// real validator path (ChainService.addBlock), deterministic keys and full state dumps.
package vnode

import (
	"context"
	"crypto/sha256"
	"fmt"
	"math/big"
	"os"
	"sort"
	"strings"
	"sync"
	"time"

	"github.com/aergoio/aergo-actor/actor"
	"github.com/aergoio/aergo-lib/db"
	"github.com/aergoio/aergo/v2/account/key"
	"github.com/aergoio/aergo/v2/chain"
	"github.com/aergoio/aergo/v2/config"
	"github.com/aergoio/aergo/v2/consensus"
	cchain "github.com/aergoio/aergo/v2/consensus/chain"
	"github.com/aergoio/aergo/v2/consensus/impl/dpos"
	"github.com/aergoio/aergo/v2/contract"
	"github.com/aergoio/aergo/v2/contract/system"
	"github.com/aergoio/aergo/v2/fee"
	"github.com/aergoio/aergo/v2/internal/common"
	"github.com/aergoio/aergo/v2/pkg/component"
	"github.com/aergoio/aergo/v2/state"
	"github.com/aergoio/aergo/v2/state/statedb"
	"github.com/aergoio/aergo/v2/types"
	"github.com/aergoio/aergo/v2/types/message"
	"github.com/btcsuite/btcd/btcec/v2"
)

// ---- keys -----------------------------------------------------------------------------------

type Key struct {
	Priv *btcec.PrivateKey
	Addr []byte // 33-byte compressed public key = account address
}

var (
	keyMu    sync.Mutex
	keyCache = map[int]*Key{}
)

// KeyN returns the i-th deterministic account key.
func KeyN(i int) *Key {
	keyMu.Lock()
	defer keyMu.Unlock()
	if k, ok := keyCache[i]; ok {
		return k
	}
	h := sha256.Sum256([]byte(fmt.Sprintf("verif-account-key-%d", i)))
	priv, pub := btcec.PrivKeyFromBytes(h[:])
	k := &Key{Priv: priv, Addr: pub.SerializeCompressed()}
	keyCache[i] = k
	return k
}

func (k *Key) Enc() string { return types.EncodeAddress(k.Addr) }

// ---- recording hub --------------------------------------------------------------------------

// Rec is a fake component that records every message sent to it.
type Rec struct {
	name string
	mu   sync.Mutex
	Msgs []interface{}
	hub  *component.ComponentHub
}

func (r *Rec) GetName() string                     { return r.name }
func (r *Rec) Start()                              {}
func (r *Rec) Stop()                               {}
func (r *Rec) Status() component.Status            { return component.StartedStatus }
func (r *Rec) SetHub(h *component.ComponentHub)    { r.hub = h }
func (r *Rec) Hub() *component.ComponentHub        { return r.hub }
func (r *Rec) MsgQueueLen() int32                  { return 0 }
func (r *Rec) Receive(actor.Context)               {}
func (r *Rec) Tell(m interface{})                  { r.mu.Lock(); r.Msgs = append(r.Msgs, m); r.mu.Unlock() }
func (r *Rec) Request(m interface{}, _ *actor.PID) { r.Tell(m) }
func (r *Rec) RequestFuture(m interface{}, timeout time.Duration, tip string) *actor.Future {
	r.Tell(m)
	f := actor.NewFuture(timeout)
	f.PID().Tell(component.ErrHubUnregistered)
	return f
}
func (r *Rec) Drain() []interface{} {
	r.mu.Lock()
	defer r.mu.Unlock()
	out := r.Msgs
	r.Msgs = nil
	return out
}

type Hub struct {
	*component.ComponentHub
	MemPool, P2P, RPC, Syncer *Rec
}

// FDAnswerer stands in for the chain service actor in ONE respect: it answers the transaction pool's
// CheckFeeDelegation request exactly as chain.ChainWorker does (fresh state DB at the current root, the contract's
// own check function). Register it together with a pool on a hub of its own.
type FDAnswerer struct {
	Rec
	N *Node
}

// NewRec makes a component that only records what it is told.
func NewRec(name string) *Rec { return &Rec{name: name} }

func NewFDAnswerer(n *Node) *FDAnswerer { return &FDAnswerer{Rec: Rec{name: message.ChainSvc}, N: n} }

func (a *FDAnswerer) RequestFuture(m interface{}, timeout time.Duration, tip string) *actor.Future {
	f := actor.NewFuture(timeout)
	msg, ok := m.(*message.CheckFeeDelegation)
	if !ok {
		f.PID().Tell(component.ErrHubUnregistered)
		return f
	}
	sdb := a.N.CS.SDB().OpenNewStateDB(a.N.CS.SDB().GetRoot())
	ctrState, err := statedb.OpenContractStateAccount(msg.Contract, sdb)
	if err == nil {
		bs := state.NewBlockState(sdb)
		err = contract.CheckFeeDelegation(msg.Contract, bs, nil, a.N.CS.CDB().(contract.ChainAccessor), ctrState, msg.Payload, msg.TxHash, msg.Sender, msg.Amount)
	}
	f.PID().Tell(message.CheckFeeDelegationRsp{Err: err})
	return f
}

func newHub() *Hub {
	h := &Hub{ComponentHub: component.NewComponentHub(),
		MemPool: &Rec{name: message.MemPoolSvc}, P2P: &Rec{name: message.P2PSvc}, RPC: &Rec{name: message.RPCSvc}, Syncer: &Rec{name: message.SyncerSvc}}
	h.Register(h.MemPool, h.P2P, h.RPC, h.Syncer)
	return h
}

// ---- permissive consensus -------------------------------------------------------------------

// StubConsensus accepts every block and always allows reorganisation (longest chain only).
type StubConsensus struct {
	Updates []types.BlockNo
	Last    *types.Block // block of the most recent Update
	Veto    func(rootNo types.BlockNo) bool
	CDB     consensus.ChainDB
	// ReloadVPR (DPoS-like nodes) reloads the in-memory voting power ranking from the state of the given block, as
	// dpos.Status.Update does when it is called with a block that is not the child of the previous one
	ReloadVPR func(b *types.Block)
	// Leader: behave like the raft leader when asked for a cluster-change proposal (a follower answers "skip")
	Leader bool
}

func (s *StubConsensus) IsTransactionValid(tx *types.Tx) bool                     { return true }
func (s *StubConsensus) VerifyTimestamp(block *types.Block) bool                  { return true }
func (s *StubConsensus) VerifySign(block *types.Block) error                      { return nil }
func (s *StubConsensus) IsBlockValid(block *types.Block, best *types.Block) error { return nil }

// Update mirrors what the DPoS status does with the process-wide system parameters: a block
// connected on top of the previous one activates parameter changes voted in it, anything else
// (a rollback) discards pending ones.
func (s *StubConsensus) Update(block *types.Block) {
	s.Updates = append(s.Updates, block.BlockNo())
	if s.Last != nil && s.Last.ID() == block.PrevID() {
		system.CommitParams(true)
	} else {
		if s.ReloadVPR != nil {
			s.ReloadVPR(block)
		}
		system.CommitParams(false)
	}
	s.Last = block
}
func (s *StubConsensus) Save(tx consensus.TxWriter) error { return nil }
func (s *StubConsensus) NeedReorganization(rootNo types.BlockNo) bool {
	if s.Veto != nil {
		return !s.Veto(rootNo)
	}
	return true
}
func (s *StubConsensus) Info() string                     { return "" }
func (s *StubConsensus) GetType() consensus.ConsensusType { return consensus.ConsensusSBP }
func (s *StubConsensus) NeedNotify() bool                 { return true }
func (s *StubConsensus) HasWAL() bool                     { return false }

// IsConnectedBlock is what the DPoS and SBP implementations do: a block that is already stored
// (connected or not) is not processed again.
func (s *StubConsensus) IsConnectedBlock(block *types.Block) bool {
	if s.CDB == nil {
		return false
	}
	_, err := s.CDB.GetBlock(block.BlockHash())
	return err == nil
}
func (s *StubConsensus) IsForkEnable() bool { return true }
func (s *StubConsensus) MakeConfChangeProposal(req *types.MembershipChange) (*consensus.ConfChangePropose, error) {
	if s.Leader {
		// what raftv2's block factory returns on the leader: a proposal to be handed to raft after the block
		return &consensus.ConfChangePropose{Ctx: context.Background()}, nil
	}
	// every other raft node
	return nil, consensus.ErrorMembershipChangeSkip
}

// ---- node -----------------------------------------------------------------------------------

type Spec struct {
	Genesis  *types.Genesis
	Hardfork config.HardforkConfig
	// VotingReward: behave like a DPoS node (in-memory voting power ranking + voting reward)
	VotingReward bool
	// RealDPoS: attach the real DPoS consensus (status, LIB, producer set) instead of the permissive stub
	RealDPoS bool
}

type Node struct {
	CS   *chain.ChainService
	Dir  string
	Hub  *Hub
	Spec *Spec
	CC   *StubConsensus
	DPoS *dpos.DPoS
	// loader is the DPoS boot loader of this node (a package global in dpos): Enter puts it back
	loader interface{}
}

// Enter makes this node the one the process-wide DPoS boot loader belongs to. Must be called
// before a node with the real DPoS consensus is driven when several such nodes exist.
func (n *Node) Enter() {
	if n.loader != nil {
		dpos.VerifSetLoader(n.loader)
	}
}

var dirSeq int
var dirMu sync.Mutex

func TempDir(prefix string) string {
	dirMu.Lock()
	dirSeq++
	n := dirSeq
	dirMu.Unlock()
	d := fmt.Sprintf("%s/%s-%d-%d", os.TempDir(), prefix, os.Getpid(), n)
	os.MkdirAll(d, 0o755)
	return d
}

func cloneGenesis(g *types.Genesis) *types.Genesis {
	c := &types.Genesis{ID: g.ID, Timestamp: g.Timestamp, Balance: map[string]string{}, BPs: append([]string{}, g.BPs...),
		EnterpriseBPs: append([]types.EnterpriseBP{}, g.EnterpriseBPs...)}
	for k, v := range g.Balance {
		c.Balance[k] = v
	}
	return c
}

// SwitchTo makes the process-wide parameters (fee regime, governance validators, system
// parameters, chain globals) those of this node, exactly what a freshly started node does.
func (n *Node) SwitchTo() {
	gen := n.CS.GetGenesisInfo()
	if gen.PublicNet() {
		fee.DisableZeroFee()
	} else {
		fee.EnableZeroFee()
	}
	contract.PubNet = gen.PublicNet()
	types.InitGovernance(gen.ConsensusType(), gen.PublicNet())
	scs, err := statedb.GetSystemAccountState(n.CS.SDB().GetStateDB())
	if err == nil {
		system.VerifResetDefaultBpCount()
		system.InitSystemParams(scs, len(gen.BPs))
	}
	if n.Spec.VotingReward {
		dpos.VerifEnableVotingReward()
		if err := dpos.InitVPR(n.CS.SDB().OpenNewStateDB(n.CS.SDB().GetRoot())); err != nil {
			panic(err)
		}
	} else {
		chain.VerifPlainBlockReward()
		system.VerifResetVPR()
	}
}

// ConfigFor is the node configuration used for spec on dir.
func ConfigFor(spec *Spec, dir string) *config.Config {
	serverCtx := config.NewServerContext("", "")
	cfg := serverCtx.GetDefaultConfig().(*config.Config)
	cfg.DbType = "memorydb"
	cfg.DataDir = dir
	cfg.Blockchain.NumWorkers = 1
	cfg.Blockchain.VerifierCount = 1
	hf := spec.Hardfork
	cfg.Hardfork = &hf
	return cfg
}

// Open starts a node on dir. If dir holds no chain yet the genesis of spec is written first.
func Open(spec *Spec, dir string) (*Node, error) {
	if dir == "" {
		dir = TempDir("vnode")
	}
	cfg := ConfigFor(spec, dir)
	if _, err := os.Stat(dir + "/chain/database"); err != nil {
		core, err := chain.NewCore("memorydb", dir, false, 0, cfg.DB)
		if err != nil {
			return nil, err
		}
		g := cloneGenesis(spec.Genesis)
		if err := core.InitGenesisBlock(g, false); err != nil {
			core.Close()
			return nil, err
		}
		core.Close()
	}
	fee.DisableZeroFee() // NewChainService only ever enables it
	chain.VerifSetUseMempool(false)
	cs := chain.NewChainService(cfg)
	n := &Node{CS: cs, Dir: dir, Hub: newHub(), Spec: spec, CC: &StubConsensus{}}
	n.Hub.Register(cs)
	if spec.RealDPoS {
		d, err := dpos.VerifNew(cs)
		if err != nil {
			cs.VerifStop()
			return nil, err
		}
		n.DPoS = d
		n.loader = dpos.VerifLoader()
		cs.SetChainConsensus(d)
	} else {
		n.CC.CDB = cs.CDB()
		// like the DPoS status at boot, the stub starts out knowing the best block: the first block connected
		// after opening the node is a normal connect (parameter changes voted in it are activated, not discarded)
		if best, err := cs.GetBestBlock(); err == nil {
			n.CC.Last = best
		}
		if spec.VotingReward {
			n.CC.ReloadVPR = func(b *types.Block) {
				if err := dpos.InitVPR(cs.SDB().OpenNewStateDB(b.GetHeader().GetBlocksRootHash())); err != nil {
					panic(err)
				}
			}
		}
		cs.SetChainConsensus(n.CC)
	}
	return n, nil
}

func (n *Node) Close() {
	if n.CS != nil {
		n.CS.VerifStop()
		n.CS = nil
	}
}

func (n *Node) Remove() {
	n.Close()
	os.RemoveAll(n.Dir)
}

func (n *Node) Best() *types.Block {
	b, _ := n.CS.GetBestBlock()
	return b
}

func (n *Node) StateStore() db.DB { return n.CS.SDB().GetStateDB().Store }

// ---- producing blocks -----------------------------------------------------------------------

type Produced struct {
	Block    *types.Block
	BState   *state.BlockState
	Included []*types.Tx
	Skipped  []*types.Tx
	Errors   map[string]error // tx hash (hex) -> error that made the producer skip it
}

// Produce builds a block on top of prev (whose state must be available in this node's state DB)
// through the real producer path: BlockGenerator.GenerateBlock with the real TxExecutor in
// BlockFactory mode, SendBlockReward and Update. The candidate list is handed to the
// generator through its fetch decorator. The block state is committed (as the chain service
// does when it receives the block from its own block factory) only by AddOwn.
func (n *Node) Produce(prev *types.Block, ts int64, cands []*types.Tx, coinbase []byte) (*Produced, error) {
	return n.ProduceUntil(prev, ts, cands, coinbase, -1)
}

// deadlineCtx is a block-generation context whose deadline the harness lets pass at a chosen moment.
type deadlineCtx struct {
	context.Context
	done chan struct{}
	once sync.Once
}

func (c *deadlineCtx) Done() <-chan struct{} { return c.done }
func (c *deadlineCtx) Err() error {
	select {
	case <-c.done:
		return context.DeadlineExceeded
	default:
		return nil
	}
}
func (c *deadlineCtx) expire() { c.once.Do(func() { close(c.done) }) }

// ProduceUntil is Produce with a block-generation deadline that passes WHILE candidate number expireDuring is being
// executed (-1: never): the producer finishes that transaction and must close the block with it included.
func (n *Node) ProduceUntil(prev *types.Block, ts int64, cands []*types.Tx, coinbase []byte, expireDuring int) (*Produced, error) {
	cs := n.CS
	bv := cs.VerifHardfork()
	bi := types.NewBlockHeaderInfoFromPrevBlock(prev, ts, bv)
	bs := cs.SDB().NewBlockState(prev.GetHeader().GetBlocksRootHash(), state.SetPrevBlockHash(prev.BlockHash()))
	bs.SetGasPrice(system.GetGasPrice())
	bs.Receipts().SetHardFork(bv, bi.No)
	out := &Produced{BState: bs, Errors: map[string]error{}}
	// the block factories execute with themselves as the cluster interface
	var ccc consensus.ChainConsensusCluster
	if n.DPoS == nil && n.CC != nil {
		ccc = n.CC
	}
	exec := chain.NewTxExecutor(context.Background(), ccc, cs.CDB().(contract.ChainAccessor), bi, contract.BlockFactory)
	genCtx := &deadlineCtx{Context: context.Background(), done: make(chan struct{})}
	idxOf := map[string]int{}
	for i, tx := range cands {
		idxOf[string(tx.GetHash())] = i
	}
	txOp := cchain.TxOpFn(func(bState *state.BlockState, tx types.Transaction) error {
		if i, ok := idxOf[string(tx.GetHash())]; ok && i == expireDuring {
			genCtx.expire()
		}
		err := exec(bState, tx)
		if err != nil {
			out.Errors[fmt.Sprintf("%x", tx.GetHash())] = err
		}
		return err
	})
	in := make([]types.Transaction, len(cands))
	for i, tx := range cands {
		in[i] = types.NewTransaction(tx)
	}
	saved := chain.CoinbaseAccount
	chain.CoinbaseAccount = coinbase
	defer func() { chain.CoinbaseAccount = saved }()
	gen := cchain.NewBlockGenerator(nil, genCtx, bi, bs, txOp, false).
		WithDeco(func(cchain.FetchFn) cchain.FetchFn {
			return func(component.ICompSyncRequester, uint32) []types.Transaction { return in }
		}).SetNoTTE(true)
	blk, err := gen.GenerateBlock()
	if err != nil {
		return nil, err
	}
	blk.BlockHash()
	out.Block = blk
	inc := map[string]bool{}
	for _, tx := range blk.GetBody().GetTxs() {
		inc[string(tx.GetHash())] = true
	}
	for _, tx := range cands {
		if inc[string(tx.GetHash())] {
			out.Included = append(out.Included, tx)
		} else {
			out.Skipped = append(out.Skipped, tx)
		}
	}
	return out, nil
}

// AddOwn connects a block this node produced itself (block state attached, no re-execution).
func (n *Node) AddOwn(p *Produced) error {
	return n.guarded(p.Block, func() error { return n.CS.VerifAddBlock(p.Block, p.BState, "") })
}

// AddPeer delivers a block as if received from the network (validator path).
func (n *Node) AddPeer(b *types.Block) error {
	c := CloneBlock(b)
	return n.guarded(b, func() error { return n.CS.VerifAddBlock(c, nil, "peer") })
}

// AddBlockDeadline: a block delivery that has not returned after this long never will (the chain service is wedged,
// e.g. its signature verifier deadlocked). Nothing can be said about such a node: the delivery panics, which the
// property checks report as a failure with the history that led to it.
var AddBlockDeadline = 60 * time.Second

func (n *Node) guarded(b *types.Block, f func() error) error {
	done := make(chan error, 1)
	go func() {
		defer func() {
			if p := recover(); p != nil {
				done <- fmt.Errorf("VERIF-PANIC in block delivery: %v", p)
			}
		}()
		done <- f()
	}()
	select {
	case err := <-done:
		if err != nil && strings.HasPrefix(err.Error(), "VERIF-PANIC") {
			panic(err.Error())
		}
		return err
	case <-time.After(AddBlockDeadline):
		panic(fmt.Sprintf("VERIF-HANG: the delivery of block %d/%x to the chain service has not returned after %v", b.BlockNo(), b.BlockHash()[:4], AddBlockDeadline))
	}
}

func CloneBlock(b *types.Block) *types.Block {
	bz, err := protoMarshal(b)
	if err != nil {
		panic(err)
	}
	c := &types.Block{}
	if err := protoUnmarshal(bz, c); err != nil {
		panic(err)
	}
	return c
}

// ---- transactions ---------------------------------------------------------------------------

// ChainIDHashFor returns the chain-id hash a tx must carry to be valid in the block after prev.
func (n *Node) ChainIDHashFor(prev *types.Block) []byte {
	bi := types.NewBlockHeaderInfoFromPrevBlock(prev, 0, n.CS.VerifHardfork())
	return common.Hasher(bi.ChainId)
}

func SignTx(tx *types.Tx, k *Key) {
	if err := key.SignTx(tx, k.Priv); err != nil {
		panic(err)
	}
}

// ---- state observation ----------------------------------------------------------------------

type Dump struct {
	Root     []byte
	Accounts map[types.AccountID]*statedb.VerifAccount
}

func DumpAt(store db.DB, root []byte) (*Dump, error) {
	acc, err := statedb.VerifFullDump(store, root)
	if err != nil {
		return nil, err
	}
	return &Dump{Root: root, Accounts: acc}, nil
}

func (n *Node) DumpAt(root []byte) (*Dump, error) { return DumpAt(n.StateStore(), root) }

func (d *Dump) SumBalances() *big.Int {
	s := new(big.Int)
	for _, a := range d.Accounts {
		s.Add(s, new(big.Int).SetBytes(a.State.Balance))
	}
	return s
}

func (d *Dump) Balance(addr []byte) *big.Int {
	a := d.Accounts[types.ToAccountID(addr)]
	if a == nil {
		return new(big.Int)
	}
	return new(big.Int).SetBytes(a.State.Balance)
}

func (d *Dump) Nonce(addr []byte) uint64 {
	a := d.Accounts[types.ToAccountID(addr)]
	if a == nil {
		return 0
	}
	return a.State.Nonce
}

// String renders the dump canonically (sorted), for equality checks and messages.
func (d *Dump) String() string {
	var ids []string
	for id := range d.Accounts {
		ids = append(ids, string(id[:]))
	}
	sort.Strings(ids)
	var sb strings.Builder
	for _, id := range ids {
		var aid types.AccountID
		copy(aid[:], id)
		a := d.Accounts[aid]
		fmt.Fprintf(&sb, "%x nonce=%d bal=%s code=%x sroot=%x rp=%d\n", id[:6], a.State.Nonce, new(big.Int).SetBytes(a.State.Balance).String(),
			short(a.State.CodeHash), short(a.State.StorageRoot), a.State.SqlRecoveryPoint)
		var ks []string
		for k := range a.Storage {
			ks = append(ks, k)
		}
		sort.Strings(ks)
		for _, k := range ks {
			fmt.Fprintf(&sb, "    %x = %x\n", k[:6], a.Storage[k])
		}
	}
	return sb.String()
}

func short(b []byte) []byte {
	if len(b) > 6 {
		return b[:6]
	}
	return b
}
