//go:build verif

package vnode

// Block-tree generator: a rooted tree of blocks over genesis with several branches, shared
// prefixes, transactions shared between or conflicting across branches, and (optionally)
// blocks that are invalid in exactly one way. Every valid block is built by the REAL producer
// path on a generator node positioned at the parent's state, so it is valid by construction;
// invalid blocks are derived from a valid twin.

import (
	"github.com/aergoio/aergo/v2/consensus/impl/dpos"
	"bytes"
	"fmt"
	"sort"
	"strings"

	"github.com/aergoio/aergo/v2/contract/system"
	"github.com/aergoio/aergo/v2/internal/common"
	"github.com/aergoio/aergo/v2/state/statedb"
	"github.com/aergoio/aergo/v2/types"
	"github.com/aergoio/aergo/v2/types/message"
	"pgregory.net/rapid"
)

type TBlock struct {
	Idx        int
	Parent     int // -1 = genesis
	Block      *types.Block
	Twin       *types.Block // the valid block this (invalid) block was derived from, nil for valid blocks
	Kind       string       // "ok" or the way in which the block is invalid
	ChainValid bool         // this block and all its ancestors are valid
	World      *World
	Desc       string
}

func (b *TBlock) Height() uint64 { return b.Block.BlockNo() }

type Tree struct {
	Genesis *types.Block
	Blocks  []*TBlock
	ByHash  map[string]*TBlock
}

type TreeOpts struct {
	MinBlocks, MaxBlocks int
	MaxTx                int
	InvalidPct           int  // chance (percent) that a block is made invalid
	Forged               bool // include the "consistent but forged tx" kinds (bad signature, foreign chain id)
	Linear               bool // single branch
	Compete              bool // grow up to three branches side by side
}

func (w *World) Clone() *World {
	c := *w
	c.Contracts = append([][]byte{}, w.Contracts...)
	c.Names = append([]string{}, w.Names...)
	c.NameOwner = map[string]int{}
	for k, v := range w.NameOwner {
		c.NameOwner[k] = v
	}
	c.Staked = map[int]bool{}
	for k, v := range w.Staked {
		c.Staked[k] = v
	}
	return &c
}

// SwitchToRoot is SwitchTo with the system parameters (and the voting power ranking) taken from
// the state at root instead of the node's current root: the generator node produces on
// arbitrary parents without ever moving its own chain.
func (n *Node) SwitchToRoot(root []byte) {
	n.SwitchTo()
	sdb := n.CS.SDB().OpenNewStateDB(root)
	scs, err := statedb.GetSystemAccountState(sdb)
	if err == nil {
		system.VerifResetDefaultBpCount()
		system.InitSystemParams(scs, len(n.CS.GetGenesisInfo().BPs))
	}
	if n.Spec.VotingReward {
		if err := dpos.InitVPR(n.CS.SDB().OpenNewStateDB(root)); err != nil {
			panic(err)
		}
	}
}

func rehash(b *types.Block) {
	b.Hash = nil
	b.Hash = b.BlockHash()
}

// GenTree draws a block tree. g is a generator node (never advanced); w0 the initial world.
func GenTree(t *rapid.T, g *Node, w0 *World, o TreeOpts) *Tree {
	gen := g.Best()
	tr := &Tree{Genesis: gen, ByHash: map[string]*TBlock{}}
	n := rapid.IntRange(o.MinBlocks, o.MaxBlocks).Draw(t, "nblocks")
	var coinbase []byte
	if rapid.Bool().Draw(t, "hasCoinbase") {
		coinbase = KeyN(500).Addr
	}
	for i := 0; i < n; i++ {
		parent := -1
		if i > 0 && o.Compete {
			// competing branches: mostly extend one of the current tips (so that branches grow side by side and
			// overtake each other), sometimes fork from an earlier block
			isParent := map[int]bool{}
			for _, b := range tr.Blocks {
				isParent[b.Parent] = true
			}
			var tips []int
			for _, b := range tr.Blocks {
				if !isParent[b.Idx] {
					tips = append(tips, b.Idx)
				}
			}
			if len(tips) < 3 && rapid.IntRange(0, 9).Draw(t, "fork") < 3 {
				parent = rapid.IntRange(-1, i-1).Draw(t, "parent")
			} else {
				parent = rapid.SampledFrom(tips).Draw(t, "tip")
			}
		} else if i > 0 {
			if o.Linear || rapid.IntRange(0, 9).Draw(t, "extend") < 6 {
				parent = i - 1
			} else {
				parent = rapid.IntRange(-1, i-1).Draw(t, "parent")
			}
		}
		var pblk, pstate *types.Block // block whose hash is the parent, block whose state we build on
		var pw *World
		pvalid := true
		if parent < 0 {
			pblk, pstate, pw = gen, gen, w0
		} else {
			p := tr.Blocks[parent]
			pblk, pstate, pw, pvalid = p.Block, p.Block, p.World, p.ChainValid
			if p.Twin != nil {
				pstate = p.Twin
			}
		}
		w := pw.Clone()
		g.SwitchToRoot(pstate.GetHeader().GetBlocksRootHash())
		cands, specs, err := g.DrawCandidates(t, w, pstate, o.MaxTx)
		if err != nil {
			t.Fatalf("generator: draw candidates: %v", err)
		}
		// transactions borrowed from blocks of other branches / ancestors (shared or replayed)
		if len(tr.Blocks) > 0 && rapid.IntRange(0, 2).Draw(t, "borrow") > 0 {
			src := tr.Blocks[rapid.IntRange(0, len(tr.Blocks)-1).Draw(t, "borrowFrom")]
			srcBlk := src.Block
			if src.Twin != nil {
				srcBlk = src.Twin // never borrow a forged transaction: the pool would not hand it to a producer
			}
			for _, tx := range srcBlk.GetBody().GetTxs() {
				if rapid.Bool().Draw(t, "borrowTx") {
					cands = append(cands, tx)
					specs = append(specs, &TxSpec{Kind: "borrowed", From: -1})
				}
			}
		}
		ts := pblk.GetHeader().GetTimestamp() + int64(i+1)*1000000000
		p, err := g.Produce(pstate, ts, cands, coinbase)
		if err != nil {
			t.Fatalf("generator: produce: %v", err)
		}
		if err := p.BState.Commit(); err != nil {
			t.Fatalf("generator: commit state: %v", err)
		}
		w.Learn(p, specs)
		blk := p.Block
		tb := &TBlock{Idx: i, Parent: parent, Kind: "ok", World: w}
		var descs []string
		inc := map[string]bool{}
		for _, tx := range p.Included {
			inc[string(tx.GetHash())] = true
		}
		for j, tx := range cands {
			if inc[string(tx.GetHash())] {
				descs = append(descs, specs[j].Kind)
			}
		}
		// re-parent onto an invalid parent (the state was built on its valid twin)
		if !bytes.Equal(pblk.BlockHash(), pstate.BlockHash()) {
			blk = CloneBlock(blk)
			blk.Header.PrevBlockHash = pblk.BlockHash()
			rehash(blk)
		}
		// rapid favours the ends of an integer range: the "invalid" window sits in the middle so that the
		// percentage means what it says
		if v := rapid.IntRange(0, 99).Draw(t, "invalid"); o.InvalidPct > 0 && v >= 40 && v < 40+o.InvalidPct {
			kinds := []string{"bad-stateroot", "bad-receiptsroot", "bad-txroot", "extra-tx-nonce", "number-gap", "number-low", "fork-version"}
			if o.Forged && len(blk.GetBody().GetTxs()) > 0 {
				kinds = append(kinds, "forged-sig", "forged-sig", "forged-chainid", "forged-chainid", "forged-sig-transplant")
			}
			kind := rapid.SampledFrom(kinds).Draw(t, "invalidKind")
			bad := makeInvalid(t, g, blk, p, pstate, kind)
			if bad != nil {
				tb.Twin = blk
				blk = bad
				tb.Kind = kind
			}
		}
		tb.Block = blk
		tb.ChainValid = pvalid && tb.Kind == "ok"
		tb.Desc = fmt.Sprintf("#%d<-%d h%d %s [%s]", i, parent, blk.BlockNo(), tb.Kind, strings.Join(descs, ","))
		tr.Blocks = append(tr.Blocks, tb)
		tr.ByHash[string(blk.BlockHash())] = tb
	}
	return tr
}

func flip(b []byte) []byte {
	c := append([]byte{}, b...)
	if len(c) == 0 {
		return []byte{1}
	}
	c[len(c)/2] ^= 0x40
	return c
}

// makeInvalid derives a block that is invalid in exactly one way from the valid block blk.
func makeInvalid(t *rapid.T, g *Node, blk *types.Block, p *Produced, pstate *types.Block, kind string) *types.Block {
	bad := CloneBlock(blk)
	switch kind {
	case "bad-stateroot":
		bad.Header.BlocksRootHash = flip(bad.Header.BlocksRootHash)
	case "bad-receiptsroot":
		bad.Header.ReceiptsRootHash = flip(bad.Header.ReceiptsRootHash)
	case "bad-txroot":
		bad.Header.TxsRootHash = flip(bad.Header.TxsRootHash)
	case "extra-tx-nonce":
		// a correctly signed transaction whose nonce is wrong at the end of the block
		d, err := g.DumpAt(blk.GetHeader().GetBlocksRootHash())
		if err != nil {
			t.Fatalf("generator: dump: %v", err)
		}
		from := rapid.IntRange(0, 1).Draw(t, "xfrom")
		cur := d.Nonce(KeyN(from).Addr)
		nonce := cur + 2
		if cur > 0 && rapid.Bool().Draw(t, "xlow") {
			nonce = cur
		}
		s := &TxSpec{Kind: "extra", From: from, Nonce: nonce, Type: types.TxType_TRANSFER, Recipient: KeyN(1 - from).Addr, Amount: Aergo}
		bad.Body.Txs = append(bad.Body.Txs, s.Build(g.ChainIDHashFor(pstate)))
		bad.Header.TxsRootHash = types.CalculateTxsRootHash(bad.Body.Txs)
	case "number-gap":
		// everything is right except that the header claims a number beyond parent+1
		bad.Header.BlockNo += uint64(rapid.IntRange(1, 3).Draw(t, "gap"))
	case "number-low":
		// the header claims the parent's own number or less, down to 0 (the genesis block's number)
		bad.Header.BlockNo -= uint64(rapid.IntRange(1, int(bad.Header.BlockNo)).Draw(t, "low"))
	case "fork-version":
		// everything is right except that the chain id in the header carries another fork version than the one the
		// node's hardfork schedule assigns to this height
		cur := types.DecodeChainIdVersion(bad.Header.ChainID)
		nv := cur + int32(rapid.SampledFrom([]int{1, -1, 2, 70}).Draw(t, "dver"))
		if nv < 0 {
			nv = cur + 1
		}
		bad.Header.ChainID = types.MakeChainId(bad.Header.ChainID, nv)
	case "forged-sig", "forged-chainid", "forged-sig-transplant":
		i := rapid.IntRange(0, len(bad.Body.Txs)-1).Draw(t, "forgeIdx")
		return ForgeTx(blk, p, i, kind)
	}
	rehash(bad)
	return bad
}

// ForgeTx returns a copy of the valid block blk (produced as p) in which transaction i is
// replaced by a forged twin. Everything (state root, receipts root, tx root) is consistent with
// executing the forged transaction as if it were genuine: only the authorisation check can
// reject the block. Returns nil when the kind does not apply to that transaction.
func ForgeTx(blk *types.Block, p *Produced, i int, kind string) *types.Block {
	bad := CloneBlock(blk)
	txs := bad.Body.Txs
	orig := txs[i]
	if len(orig.GetBody().GetAccount()) != types.AddressLength {
		return nil
	}
	k := senderKeyOf(orig)
	if k == nil {
		return nil
	}
	f := orig.Clone()
	switch kind {
	case "forged-sig":
		// signed by somebody else's key
		f.Body.Sign = nil
		SignTx(f, KeyN(900))
	case "forged-sig-transplant":
		// genuine signature of the same sender, but made for another transaction body
		other := orig.Clone()
		other.Body.Nonce += 100
		other.Body.Sign = nil
		SignTx(other, k)
		f.Body.Sign = other.Body.Sign
	case "forged-chainid":
		// properly signed by the sender, but for another chain / another fork version
		f.Body.ChainIdHash = common.Hasher([]byte("some-other-chain"))
		f.Body.Sign = nil
		SignTx(f, k)
	default:
		return nil
	}
	f.Hash = f.CalculateTxHash()
	txs[i] = f
	bad.Header.TxsRootHash = types.CalculateTxsRootHash(txs)
	// receipts carry the tx hash: recompute the receipts root for the forged list
	rs := p.BState.Receipts()
	if i < len(rs.Get()) {
		saved := rs.Get()[i].TxHash
		rs.Get()[i].TxHash = f.Hash
		bad.Header.ReceiptsRootHash = rs.MerkleRoot()
		rs.Get()[i].TxHash = saved
	}
	rehash(bad)
	return bad
}

// WithStateRootFlipped returns a copy of blk whose state root is wrong.
func WithStateRootFlipped(blk *types.Block) *types.Block {
	bad := CloneBlock(blk)
	bad.Header.BlocksRootHash = flip(bad.Header.BlocksRootHash)
	rehash(bad)
	return bad
}

// DecoyChild returns a block that names parent as its previous block but claims a number gap beyond parent+1: what
// anybody who knows the parent's hash can send before the parent itself arrives.
func DecoyChild(parent *types.Block, gap uint64) *types.Block {
	d := CloneBlock(parent)
	d.Header.PrevBlockHash = parent.BlockHash()
	d.Header.BlockNo = parent.BlockNo() + 1 + gap
	d.Header.Timestamp++
	rehash(d)
	return d
}

// WithExtraTx returns a copy of blk with tx appended (tx root recomputed).
func WithExtraTx(blk *types.Block, tx *types.Tx) *types.Block {
	bad := CloneBlock(blk)
	bad.Body.Txs = append(bad.Body.Txs, tx)
	bad.Header.TxsRootHash = types.CalculateTxsRootHash(bad.Body.Txs)
	rehash(bad)
	return bad
}

// Reparent returns a copy of blk whose parent hash is that of parent.
func Reparent(blk, parent *types.Block) *types.Block {
	c := CloneBlock(blk)
	c.Header.PrevBlockHash = parent.BlockHash()
	rehash(c)
	return c
}

// ProduceCommitted produces a block on prev (valid by construction) and stores its state in the
// generator node's state database without touching the node's chain.
func (n *Node) ProduceCommitted(prev *types.Block, ts int64, txs []*types.Tx, coinbase []byte) (*Produced, error) {
	n.SwitchToRoot(prev.GetHeader().GetBlocksRootHash())
	p, err := n.Produce(prev, ts, txs, coinbase)
	if err != nil {
		return nil, err
	}
	if err := p.BState.Commit(); err != nil {
		return nil, err
	}
	return p, nil
}

func senderKeyOf(tx *types.Tx) *Key {
	for i := 0; i < 8; i++ {
		if bytes.Equal(KeyN(i).Addr, tx.GetBody().GetAccount()) {
			return KeyN(i)
		}
	}
	return nil
}

// ---- delivery schedules ---------------------------------------------------------------------

// DrawSchedule draws the order in which the tree's blocks arrive (indices into tr.Blocks, with
// duplicates); it is followed by FinalPass (every block once more, parents first).
func DrawSchedule(t *rapid.T, tr *Tree) []int {
	n := len(tr.Blocks)
	idx := make([]int, n)
	for i := range idx {
		idx[i] = i
	}
	switch rapid.IntRange(0, 5).Draw(t, "schedMode") {
	case 0: // in generation order (parents first)
	case 1: // reversed: children before parents
		for i, j := 0, n-1; i < j; i, j = i+1, j-1 {
			idx[i], idx[j] = idx[j], idx[i]
		}
	case 2, 3: // arbitrary permutation
		idx = rapid.Permutation(idx).Draw(t, "perm")
	case 4: // branch by branch, longest last: sort by (leaf group) approximated by height then index
		sort.SliceStable(idx, func(a, b int) bool { return tr.Blocks[idx[a]].Height() < tr.Blocks[idx[b]].Height() })
	case 5: // mostly in order with a few swaps
		for k := 0; k < 2 && n > 1; k++ {
			a := rapid.IntRange(0, n-1).Draw(t, "swapA")
			b := rapid.IntRange(0, n-1).Draw(t, "swapB")
			idx[a], idx[b] = idx[b], idx[a]
		}
	}
	// duplicates
	nd := rapid.IntRange(0, 2).Draw(t, "ndup")
	for k := 0; k < nd && n > 0; k++ {
		pos := rapid.IntRange(0, len(idx)).Draw(t, "dupPos")
		v := rapid.IntRange(0, n-1).Draw(t, "dupIdx")
		idx = append(idx[:pos], append([]int{v}, idx[pos:]...)...)
	}
	return idx
}

// ---- chain database invariants (C05) -------------------------------------------------------------

// MainChain returns the blocks from genesis to the best block, following parent hashes.
func (n *Node) MainChain() ([]*types.Block, error) {
	best := n.Best()
	if best == nil {
		return nil, fmt.Errorf("no best block")
	}
	out := make([]*types.Block, best.BlockNo()+1)
	cur := best
	for {
		no := cur.BlockNo()
		if no >= uint64(len(out)) || out[no] != nil {
			return nil, fmt.Errorf("parent chain of the best block is not strictly descending at height %d", no)
		}
		out[no] = cur
		if no == 0 {
			break
		}
		prev, err := n.CS.GetBlock(cur.GetHeader().GetPrevBlockHash())
		if err != nil {
			return nil, fmt.Errorf("block %d (%x) on the best block's parent path: parent %x not found: %v", no, short(cur.BlockHash()), short(cur.GetHeader().GetPrevBlockHash()), err)
		}
		if prev.BlockNo()+1 != no {
			return nil, fmt.Errorf("block %d has a parent numbered %d", no, prev.BlockNo())
		}
		cur = prev
	}
	return out, nil
}

// CheckChainInvariants checks the coherence of the chain database of n. known = all blocks that
// were ever handed to the node (main or not); genesis = expected genesis hash.
func (n *Node) CheckChainInvariants(genesis []byte, known []*types.Block) error {
	cs := n.CS
	main, err := n.MainChain()
	if err != nil {
		return err
	}
	best := main[len(main)-1]
	if !bytes.Equal(main[0].BlockHash(), genesis) {
		return fmt.Errorf("the best block's parent path ends at %x, not at genesis", short(main[0].BlockHash()))
	}
	if cs.VerifLatestNo() != best.BlockNo() {
		return fmt.Errorf("in-memory latest height %d != best block height %d", cs.VerifLatestNo(), best.BlockNo())
	}
	if pl, ok := cs.VerifPersistedLatest(); !ok || pl != best.BlockNo() {
		return fmt.Errorf("persisted latest height %d (present=%v) != best block height %d", pl, ok, best.BlockNo())
	}
	mainTx := map[string]bool{}
	for h, b := range main {
		hash, err := cs.GetHashByNo(uint64(h))
		if err != nil || !bytes.Equal(hash, b.BlockHash()) {
			return fmt.Errorf("height index: height %d -> %x (err %v), but the block on the best block's parent path is %x", h, short(hash), err, short(b.BlockHash()))
		}
		byNo, err := cs.CDB().GetBlockByNo(uint64(h))
		if err != nil || !bytes.Equal(byNo.BlockHash(), b.BlockHash()) {
			return fmt.Errorf("block by number %d is not the main chain block", h)
		}
		txs := b.GetBody().GetTxs()
		for i, tx := range txs {
			mainTx[string(tx.GetHash())] = true
			got, idx, err := cs.VerifGetTx(tx.GetHash())
			if err != nil || idx == nil {
				return fmt.Errorf("tx %x of main chain block %d (position %d) is not found by hash: %v", short(tx.GetHash()), h, i, err)
			}
			if !bytes.Equal(idx.BlockHash, b.BlockHash()) || int(idx.Idx) != i {
				return fmt.Errorf("tx %x of main chain block %d/%x position %d is indexed at block %x position %d", short(tx.GetHash()), h, short(b.BlockHash()), i, short(idx.BlockHash), idx.Idx)
			}
			if !bytes.Equal(got.GetHash(), tx.GetHash()) {
				return fmt.Errorf("tx lookup of %x returned tx %x", short(tx.GetHash()), short(got.GetHash()))
			}
			r, err := cs.VerifGetReceipt(tx.GetHash())
			if err != nil || r == nil {
				return fmt.Errorf("no receipt for tx %x of main chain block %d: %v", short(tx.GetHash()), h, err)
			}
			if !bytes.Equal(r.TxHash, tx.GetHash()) {
				return fmt.Errorf("receipt of tx %x (block %d position %d) names tx %x", short(tx.GetHash()), h, i, short(r.TxHash))
			}
		}
		if len(txs) > 0 {
			rs, err := cs.VerifGetReceipts(b.BlockHash())
			if err != nil || rs == nil || len(rs.Get()) != len(txs) {
				cnt := -1
				if rs != nil {
					cnt = len(rs.Get())
				}
				return fmt.Errorf("receipts of main chain block %d: %d entries for %d txs (err %v)", h, cnt, len(txs), err)
			}
		}
	}
	// the receipts of a block that is stored but not on the main chain are "not found", whatever its height
	mainHash := map[string]bool{}
	for _, b := range main {
		mainHash[string(b.BlockHash())] = true
	}
	for _, b := range known {
		if mainHash[string(b.BlockHash())] {
			continue
		}
		if _, err := cs.GetBlock(b.BlockHash()); err != nil {
			continue // not stored
		}
		if rs, err := cs.VerifGetReceipts(b.BlockHash()); err == nil && rs != nil && len(rs.Get()) > 0 {
			return fmt.Errorf("receipts are reported for block %d/%x, which is not on the main chain", b.BlockNo(), short(b.BlockHash()))
		}
	}
	// transactions that are only on abandoned branches are not reported as confirmed
	for _, b := range known {
		for _, tx := range b.GetBody().GetTxs() {
			if mainTx[string(tx.GetHash())] {
				continue
			}
			if _, idx, err := cs.VerifGetTx(tx.GetHash()); err == nil && idx != nil {
				return fmt.Errorf("tx %x exists only in non-main block %d/%x but is reported as confirmed in block %x position %d", short(tx.GetHash()), b.BlockNo(), short(b.BlockHash()), short(idx.BlockHash), idx.Idx)
			}
			if r, err := cs.VerifGetReceipt(tx.GetHash()); err == nil && r != nil {
				return fmt.Errorf("tx %x exists only in non-main block %d but a receipt is reported for it", short(tx.GetHash()), b.BlockNo())
			}
		}
	}
	root := cs.SDB().GetRoot()
	if !bytes.Equal(root, best.GetHeader().GetBlocksRootHash()) {
		return fmt.Errorf("current state root %x != state root %x of the best block %d/%x", short(root), short(best.GetHeader().GetBlocksRootHash()), best.BlockNo(), short(best.BlockHash()))
	}
	if _, err := n.DumpAt(root); err != nil {
		return fmt.Errorf("state of the best block is not fully readable: %v", err)
	}
	// raw scan: no height entry above the best block
	st := cs.VerifChainStore()
	for it := st.Iterator(nil, nil); it.Valid(); it.Next() {
		k := it.Key()
		if len(k) == 8 {
			if no := types.BlockNoFromBytes(k); no > best.BlockNo() && len(it.Value()) == 32 {
				return fmt.Errorf("height index holds an entry for height %d above the best block %d", no, best.BlockNo())
			}
		}
	}
	if cs.VerifHasReorgMarker() {
		return fmt.Errorf("a reorganisation marker is left in the chain database")
	}
	return nil
}

// PoolPuts drains the recorded messages to the pool and returns the hashes of the transactions
// handed back (MemPoolPut).
func (n *Node) PoolPuts() map[string]bool {
	out := map[string]bool{}
	for _, m := range n.Hub.MemPool.Drain() {
		if p, ok := m.(*message.MemPoolPut); ok && p.Tx != nil {
			out[string(p.Tx.GetHash())] = true
		}
	}
	return out
}
