//go:build verif

package vnode

// Journaling key-value store: wraps the stores of a node and records every DURABLE WRITE UNIT in
// one global order: a single Set/Delete, a committed transaction (atomic), a flushed bulk (a
// sequence of operations that a real store may apply only partially). A crash at unit k is
// simulated by materialising "snapshot + first k units" as memorydb files in a fresh directory
// and starting a real node on it.

import (
	"encoding/gob"
	"fmt"
	"os"
	"sync"

	"github.com/aergoio/aergo-lib/db"
)

type JOp struct {
	Store int // 0 = chain DB, 1 = state DB
	Key   []byte
	Val   []byte
	Del   bool
}

type JUnit struct {
	Kind string // set | delete | tx | bulk
	Ops  []JOp
}

type Journal struct {
	mu    sync.Mutex
	Units []JUnit
}

func (j *Journal) add(u JUnit) {
	if len(u.Ops) == 0 {
		return
	}
	j.mu.Lock()
	j.Units = append(j.Units, u)
	j.mu.Unlock()
}

func (j *Journal) Len() int {
	j.mu.Lock()
	defer j.mu.Unlock()
	return len(j.Units)
}

type jdb struct {
	db.DB
	j  *Journal
	id int
}

func cp(b []byte) []byte { return append([]byte{}, b...) }

func (d *jdb) Set(k, v []byte) {
	d.DB.Set(k, v)
	d.j.add(JUnit{Kind: "set", Ops: []JOp{{Store: d.id, Key: cp(k), Val: cp(v)}}})
}
func (d *jdb) Delete(k []byte) {
	d.DB.Delete(k)
	d.j.add(JUnit{Kind: "delete", Ops: []JOp{{Store: d.id, Key: cp(k), Del: true}}})
}
func (d *jdb) NewTx() db.Transaction { return &jtx{inner: d.DB.NewTx(), d: d} }
func (d *jdb) NewBulk() db.Bulk      { return &jbulk{inner: d.DB.NewBulk(), d: d} }

type jtx struct {
	inner db.Transaction
	d     *jdb
	ops   []JOp
}

func (t *jtx) Set(k, v []byte) {
	t.inner.Set(k, v)
	t.ops = append(t.ops, JOp{Store: t.d.id, Key: cp(k), Val: cp(v)})
}
func (t *jtx) Delete(k []byte) {
	t.inner.Delete(k)
	t.ops = append(t.ops, JOp{Store: t.d.id, Key: cp(k), Del: true})
}
func (t *jtx) Commit() {
	t.inner.Commit()
	t.d.j.add(JUnit{Kind: "tx", Ops: t.ops})
	t.ops = nil
}
func (t *jtx) Discard() { t.inner.Discard(); t.ops = nil }

type jbulk struct {
	inner db.Bulk
	d     *jdb
	ops   []JOp
}

func (b *jbulk) Set(k, v []byte) {
	b.inner.Set(k, v)
	b.ops = append(b.ops, JOp{Store: b.d.id, Key: cp(k), Val: cp(v)})
}
func (b *jbulk) Delete(k []byte) {
	b.inner.Delete(k)
	b.ops = append(b.ops, JOp{Store: b.d.id, Key: cp(k), Del: true})
}
func (b *jbulk) Flush() {
	b.inner.Flush()
	b.d.j.add(JUnit{Kind: "bulk", Ops: b.ops})
	b.ops = nil
}
func (b *jbulk) DiscardLast() { b.inner.DiscardLast(); b.ops = nil }

// AttachJournal wraps both stores of the node. Returns the journal and a snapshot of the two
// stores at this moment.
func (n *Node) AttachJournal() (*Journal, [2]map[string][]byte) {
	j := &Journal{}
	var snap [2]map[string][]byte
	snapOf := func(s db.DB) map[string][]byte {
		m := map[string][]byte{}
		for it := s.Iterator(nil, nil); it.Valid(); it.Next() {
			m[string(it.Key())] = cp(it.Value())
		}
		return m
	}
	snap[0] = snapOf(n.CS.VerifChainStore())
	snap[1] = snapOf(n.CS.SDB().VerifStore())
	n.CS.VerifSetChainStore(&jdb{DB: n.CS.VerifChainStore(), j: j, id: 0})
	n.CS.SDB().VerifWrapStore(func(s db.DB) db.DB { return &jdb{DB: s, j: j, id: 1} })
	return j, snap
}

// Materialise writes "snap + units[:k] (+ the first partial ops of unit k when partial >= 0)" as
// the memorydb files of a node directory.
func Materialise(dir string, snap [2]map[string][]byte, units []JUnit, k int, partial int) error {
	var m [2]map[string][]byte
	for s := 0; s < 2; s++ {
		m[s] = make(map[string][]byte, len(snap[s]))
		for key, v := range snap[s] {
			m[s][key] = v
		}
	}
	apply := func(op JOp) {
		if op.Del {
			delete(m[op.Store], string(op.Key))
		} else {
			m[op.Store][string(op.Key)] = op.Val
		}
	}
	for i := 0; i < k && i < len(units); i++ {
		for _, op := range units[i].Ops {
			apply(op)
		}
	}
	if partial >= 0 && k < len(units) {
		for i := 0; i < partial && i < len(units[k].Ops); i++ {
			apply(units[k].Ops[i])
		}
	}
	for s, sub := range []string{"chain", "state"} {
		if err := os.MkdirAll(dir+"/"+sub, 0o755); err != nil {
			return err
		}
		f, err := os.Create(dir + "/" + sub + "/database")
		if err != nil {
			return err
		}
		if err := gob.NewEncoder(f).Encode(m[s]); err != nil {
			f.Close()
			return fmt.Errorf("encode %s: %v", sub, err)
		}
		f.Close()
	}
	return nil
}
