//go:build verif

package c01

// C01 — ledger conservation: executing a block never mints or burns native coin.
//
// Oracle (independent of any ledger model): the sum of the balances of ALL accounts in a full
// dump of the state at the block's root equals the sum at the parent's root; with no coinbase
// account the supply shrinks by exactly the fees recorded in the block's receipts. Checked for
// the producer path (real BlockGenerator + TxExecutor) and for the validator path (a second
// node that re-executes the block from the network).

import (
	"bytes"
	"fmt"
	"math/big"
	"sort"
	"strings"
	"testing"

	"github.com/aergoio/aergo/v2/types"
	"github.com/aergoio/aergo/v2/verifx/ev"
	"github.com/aergoio/aergo/v2/verifx/vnode"
	"pgregory.net/rapid"
)

func TestC01Conservation(t *testing.T) {
	rec := ev.New("C01", "conservation")
	defer rec.Flush()
	rapid.Check(t, func(t *rapid.T) {
		opts := vnode.WorldOpts{
			Consensus: rapid.SampledFrom([]string{"dpos", "dpos", "sbp"}).Draw(t, "consensus"),
			Public:    rapid.Bool().Draw(t, "public"),
			NUsers:    rapid.IntRange(2, 4).Draw(t, "nusers"),
			NBPs:      rapid.IntRange(1, 3).Draw(t, "nbps"),
			Hardfork:  vnode.DrawHardfork(t, 8),
			Magic:     "verif.c01",
		}
		votingReward := false
		if opts.Consensus == "dpos" {
			votingReward = rapid.Bool().Draw(t, "votingReward")
			opts.FundVault = votingReward
		}
		spec := vnode.NewSpec(opts)
		spec.VotingReward = votingReward
		prod, err := vnode.Open(spec, "")
		if err != nil {
			t.Fatalf("open producer: %v", err)
		}
		defer prod.Remove()
		var val *vnode.Node
		if rapid.Bool().Draw(t, "withValidator") {
			val, err = vnode.Open(spec, "")
			if err != nil {
				t.Fatalf("open validator: %v", err)
			}
			defer val.Remove()
		}
		w := &vnode.World{NUsers: opts.NUsers, NBPs: opts.NBPs, Public: opts.Public, DPoS: opts.Consensus == "dpos"}
		prev := prod.Best()
		nblocks := rapid.IntRange(1, 6).Draw(t, "nblocks")
		classes := map[string]bool{fmt.Sprintf("public=%v", opts.Public): true, "consensus=" + opts.Consensus: true, fmt.Sprintf("votingReward=%v", votingReward): true}
		nontrivial := false
		var hist []string
		// in a fifth of the cases: a fee-delegating contract that is itself the SENDER of a fee-delegated call. A name
		// registered by the contract's creator is pointed at the contract; a transaction sent under that name resolves
		// to the contract account and is signed by the name's owner (the creator), which is what block validation checks.
		selfName, selfCtr := "", []byte(nil)
		if rapid.IntRange(0, 4).Draw(t, "contractAsSender") == 0 {
			prod.SwitchTo()
			start := prev
			fund := new(big.Int).Mul(big.NewInt(int64(rapid.SampledFrom([]int{1, 10, 100}).Draw(t, "selfFund"))), vnode.Aergo)
			tip, err := prod.SetupFeeDelegationScene(w, prev, fund)
			if err == nil {
				ctr := w.Contracts[len(w.Contracts)-1]
				step := func(prev *types.Block, payload []byte) (*types.Block, error) {
					d, err := prod.DumpAt(prev.GetHeader().GetBlocksRootHash())
					if err != nil {
						return nil, err
					}
					tx := (&vnode.TxSpec{Kind: "name", From: 0, Nonce: d.Nonce(vnode.KeyN(0).Addr) + 1, Type: types.TxType_GOVERNANCE, Recipient: []byte(types.AergoName),
						Amount: new(big.Int).Set(vnode.Aergo), Payload: payload}).Build(prod.ChainIDHashFor(prev))
					p, err := prod.Produce(prev, prev.GetHeader().GetTimestamp()+1000000000, []*types.Tx{tx}, nil)
					if err != nil {
						return nil, err
					}
					if len(p.Included) != 1 {
						return nil, fmt.Errorf("name transaction not included")
					}
					return p.Block, prod.AddOwn(p)
				}
				b1, err1 := step(tip, vnode.CallInfo("v1createName", "c01selfname1"))
				if err1 == nil {
					b2, err2 := step(b1, vnode.CallInfo("v1updateName", "c01selfname1", types.EncodeAddress(ctr)))
					if err2 == nil {
						tip, selfName, selfCtr = b2, "c01selfname1", ctr
					} else {
						tip = b1
					}
				}
			}
			// the validator follows
			if val != nil && tip != start {
				var path []*types.Block
				for cur := tip; !bytes.Equal(cur.BlockHash(), start.BlockHash()); {
					path = append([]*types.Block{cur}, path...)
					cur, err = prod.CS.GetBlock(cur.GetHeader().GetPrevBlockHash())
					if err != nil {
						t.Fatal(err)
					}
				}
				val.SwitchTo()
				for _, blk := range path {
					if err := val.AddPeer(blk); err != nil {
						t.Fatalf("validator rejected scene block %d: %v", blk.BlockNo(), err)
					}
				}
				prod.SwitchTo()
			}
			prev = tip
		}
		for b := 0; b < nblocks; b++ {
			prod.SwitchTo()
			var coinbase []byte
			if rapid.Bool().Draw(t, "hasCoinbase") {
				coinbase = vnode.KeyN(500).Addr
			}
			cands, specs, err := prod.DrawCandidates(t, w, prev, 8)
			if err != nil {
				t.Fatalf("draw: %v", err)
			}
			pre, err := prod.DumpAt(prev.GetHeader().GetBlocksRootHash())
			if err != nil {
				t.Fatalf("dump parent state: %v", err)
			}
			if selfName != "" && rapid.Bool().Draw(t, "selfCall") {
				// the contract calls itself with fee delegation: sender account = recipient account = fee payer
				ops := [][]string{{"set", "a", "1"}}
				if rapid.Bool().Draw(t, "selfBurn") {
					ops = append(ops, []string{"burn", rapid.SampledFrom([]string{"20000", "200000"}).Draw(t, "burn")})
				}
				if rapid.IntRange(0, 3).Draw(t, "selfFails") == 0 {
					ops = append(ops, []string{"fail", "boom"})
				}
				tx := &types.Tx{Body: &types.TxBody{Nonce: pre.Nonce(selfCtr) + 1, Account: []byte(selfName), Recipient: selfCtr, Amount: new(big.Int).Bytes(),
					Payload: vnode.StubProgram(ops...), Type: types.TxType_FEEDELEGATION, ChainIdHash: prod.ChainIDHashFor(prev)}}
				vnode.SignTx(tx, vnode.KeyN(0))
				cands = append(cands, tx)
				specs = append(specs, &vnode.TxSpec{Kind: "feedeleg-by-the-contract-itself", From: 0, Nonce: tx.Body.Nonce})
			}
			p, err := prod.Produce(prev, prev.GetHeader().GetTimestamp()+1000000000, cands, coinbase)
			if err != nil {
				t.Fatalf("produce: %v", err)
			}
			if err := prod.AddOwn(p); err != nil {
				t.Fatalf("producer could not connect its own block %d: %v", p.Block.BlockNo(), err)
			}
			post, err := prod.DumpAt(p.Block.GetHeader().GetBlocksRootHash())
			if err != nil {
				t.Fatalf("dump state after block %d: %v", p.Block.BlockNo(), err)
			}
			receipts := p.BState.Receipts().Get()
			fees := vnode.FeesOf(receipts)
			kinds := map[string]bool{}
			statuses := map[string]bool{}
			var bdesc []string
			inc := map[string]bool{}
			for _, tx := range p.Included {
				inc[string(tx.GetHash())] = true
			}
			for i, tx := range cands {
				if inc[string(tx.GetHash())] {
					kinds[strings.SplitN(specs[i].Kind, "+", 2)[0]] = true
					bdesc = append(bdesc, specs[i].Kind+specs[i].Desc)
				} else {
					bdesc = append(bdesc, "("+specs[i].Kind+" skipped)")
					classes["skipped-tx"] = true
				}
			}
			for _, r := range receipts {
				statuses[r.Status] = true
			}
			ver := types.DecodeChainIdVersion(p.Block.GetHeader().GetChainID())
			classes[fmt.Sprintf("forkversion=%d", ver)] = true
			for k := range kinds {
				classes["kind:"+k] = true
			}
			for s := range statuses {
				classes["receipt:"+s] = true
			}
			sysMove := kinds["stake"] || kinds["unstake"] || kinds["name-create"] || kinds["name-update"] || kinds["name-setowner"] || kinds["transfer-to-system"]
			if len(p.Included) >= 2 && len(kinds) >= 2 && (sysMove || statuses["ERROR"]) {
				nontrivial = true
			}
			hist = append(hist, fmt.Sprintf("v%d cb=%v [%s]", ver, coinbase != nil, strings.Join(bdesc, ", ")))
			check := func(what string, pre, post *vnode.Dump) {
				before, after := pre.SumBalances(), post.SumBalances()
				want := new(big.Int).Set(before)
				if coinbase == nil {
					want.Sub(want, fees)
					classes["no-coinbase"] = true
				} else {
					cbDelta := new(big.Int).Sub(post.Balance(coinbase), pre.Balance(coinbase))
					if cbDelta.Cmp(fees) != 0 {
						t.Fatalf("%s: block %d: coinbase received %s but receipts record fees of %s\nhistory: %s", what, p.Block.BlockNo(), cbDelta, fees, strings.Join(hist, " | "))
					}
				}
				if after.Cmp(want) != 0 {
					diff := new(big.Int).Sub(after, want)
					t.Fatalf("%s: block %d (fork version %d, coinbase set=%v): total supply changed by %s aer (before %s, after %s, fees %s)\nblock txs: %s\npre:\n%spost:\n%s",
						what, p.Block.BlockNo(), ver, coinbase != nil, diff, before, after, fees, strings.Join(bdesc, ", "), pre, post)
				}
			}
			check("producer path", pre, post)
			if votingReward && post.Balance([]byte(types.AergoVault)).Cmp(pre.Balance([]byte(types.AergoVault))) < 0 {
				classes["voting-reward-paid"] = true
			}
			if val != nil {
				val.SwitchTo()
				vpre, err := val.DumpAt(prev.GetHeader().GetBlocksRootHash())
				if err != nil {
					t.Fatalf("validator dump: %v", err)
				}
				if err := val.AddPeer(p.Block); err != nil {
					t.Fatalf("validator rejected block %d built by the producer path: %v\nblock txs: %s", p.Block.BlockNo(), err, strings.Join(bdesc, ", "))
				}
				vpost, err := val.DumpAt(val.Best().GetHeader().GetBlocksRootHash())
				if err != nil {
					t.Fatalf("validator dump: %v", err)
				}
				check("validator path", vpre, vpost)
				classes["validator-path"] = true
				prod.SwitchTo()
			}
			w.Learn(p, specs)
			prev = p.Block
		}
		var cl []string
		for c := range classes {
			cl = append(cl, c)
		}
		sort.Strings(cl)
		canon := fmt.Sprintf("%+v|%s", opts, strings.Join(hist, "|"))
		rec.Case(strings.Join(cl, ","), canon, nontrivial, func() interface{} {
			return map[string]interface{}{"consensus": opts.Consensus, "public": opts.Public, "hardfork": fmt.Sprintf("%+v", opts.Hardfork), "blocks": hist}
		})
	})
}
